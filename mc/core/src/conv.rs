//! Dispatch for conversions (between implementations, to/from native integers and slices).
//! Every arm is one call of a `From`/`TryFrom` impl of the crate under test.

use crate::kinds::*;
use bva::{Bv, Bvd, Bvf};

macro_rules! fixed_list {
    ($m:ident $(, $extra:tt)*) => {
        $m! { $($extra,)*
            [(F8x1, Bvf<u8, 1>), (F8x2, Bvf<u8, 2>), (F8x3, Bvf<u8, 3>),
             (F16x1, Bvf<u16, 1>), (F16x2, Bvf<u16, 2>),
             (F32x1, Bvf<u32, 1>), (F32x2, Bvf<u32, 2>),
             (F64x1, Bvf<u64, 1>), (F64x2, Bvf<u64, 2>), (F64x3, Bvf<u64, 3>), (F64x4, Bvf<u64, 4>),
             (FUx1, Bvf<usize, 1>), (FUx2, Bvf<usize, 2>),
             (F128x1, Bvf<u128, 1>), (F128x2, Bvf<u128, 2>)]
        }
    };
}

fn es<E: std::fmt::Debug>(e: E) -> String {
    format!("{:?}", e)
}

// fixed -> fixed, by reference only (no by-value impl exists between different Bvf types)
macro_rules! gen_ff {
    ($dlist:tt, [$(($sv:ident, $st:ty)),+]) => {
        fn conv_ff(x: &AnyBv, target: K) -> Option<Result<AnyBv, String>> {
            match x {
                $( AnyBv::$sv(x) => gen_ff!(@d x, target, $st, $dlist), )+
                _ => None,
            }
        }
    };
    (@d $x:ident, $target:ident, $st:ty, [$(($dv:ident, $dt:ty)),+]) => {
        match $target {
            $( K::$dv => Some(<$dt as TryFrom<&$st>>::try_from($x).map(|y| AnyBv::$dv(y)).map_err(es)), )+
            _ => None,
        }
    };
}
fixed_list!(fixed_list, gen_ff);

// fixed -> D / A, D / A -> fixed, both by reference and by value
macro_rules! gen_fd {
    ([$(($v:ident, $t:ty)),+]) => {
        fn conv_f_to_dyn(x: &AnyBv, target: K, by_value: bool) -> Option<Result<AnyBv, String>> {
            match x {
                $( AnyBv::$v(x) => match target {
                    K::D => Some(Ok(AnyBv::D(if by_value { Bvd::from(*x) } else { Bvd::from(x) }))),
                    K::A => Some(Ok(AnyBv::A(if by_value { Bv::from(*x) } else { Bv::from(x) }))),
                    _ => None,
                }, )+
                _ => None,
            }
        }
        fn conv_dyn_to_f(x: &AnyBv, target: K, by_value: bool) -> Option<Result<AnyBv, String>> {
            match x {
                AnyBv::D(x) => match target {
                    $( K::$v => Some(if by_value { <$t>::try_from(x.clone()) } else { <$t>::try_from(x) }
                        .map(|y| AnyBv::$v(y)).map_err(es)), )+
                    _ => None,
                },
                AnyBv::A(x) => match target {
                    $( K::$v => Some(if by_value { <$t>::try_from(x.clone()) } else { <$t>::try_from(x) }
                        .map(|y| AnyBv::$v(y)).map_err(es)), )+
                    _ => None,
                },
                _ => None,
            }
        }
        /// new(into_inner(x))
        pub fn new_inner(x: AnyBv) -> AnyBv {
            match x {
                $( AnyBv::$v(x) => { let (d, l) = x.into_inner(); AnyBv::$v(<$t>::new(d, l)) } )+
                AnyBv::D(x) => { let (d, l) = x.into_inner(); AnyBv::D(Bvd::new(d, l)) }
                AnyBv::A(Bv::Fixed(x)) => { let (d, l) = x.into_inner(); AnyBv::A(Bv::Fixed(Bvf::new(d, l))) }
                AnyBv::A(Bv::Dynamic(x)) => { let (d, l) = x.into_inner(); AnyBv::A(Bv::Dynamic(Bvd::new(d, l))) }
            }
        }
    };
}
fixed_list!(gen_fd);

fn conv_dd(x: &AnyBv, target: K, by_value: bool) -> Option<Result<AnyBv, String>> {
    match (x, target) {
        (AnyBv::D(x), K::D) => Some(Ok(AnyBv::D(if by_value { Bvd::from(x.clone()) } else { Bvd::from(x) }))),
        (AnyBv::D(x), K::A) => Some(Ok(AnyBv::A(if by_value { Bv::from(x.clone()) } else { Bv::from(x) }))),
        (AnyBv::A(x), K::D) => Some(Ok(AnyBv::D(if by_value { Bvd::from(x.clone()) } else { Bvd::from(x) }))),
        (AnyBv::A(x), K::A) => Some(Ok(AnyBv::A(if by_value { Bv::from(x.clone()) } else { Bv::from(x) }))),
        _ => None,
    }
}

/// Does an implementation of this conversion exist in the crate under test.
pub fn has_conv(src: K, dst: K, by_value: bool) -> bool {
    let sf = src.cap().is_some();
    let df = dst.cap().is_some();
    !(sf && df && by_value)
}

/// Convert `x` into kind `target` with the crate's `From`/`TryFrom` impl.
pub fn convert(x: &AnyBv, target: K, by_value: bool) -> Result<AnyBv, String> {
    let r = conv_dd(x, target, by_value)
        .or_else(|| conv_f_to_dyn(x, target, by_value))
        .or_else(|| conv_dyn_to_f(x, target, by_value))
        .or_else(|| if by_value { None } else { conv_ff(x, target) });
    r.unwrap_or_else(|| panic!("harness: no conversion {:?} -> {:?} by_value={}", x.kind(), target, by_value))
}

pub fn unwrap_t<T: Subj>(a: AnyBv) -> T {
    T::unwrap(a).expect("harness: kind mismatch")
}

// ------------------------------------------------------------------------------------------------
// native integers
// ------------------------------------------------------------------------------------------------

macro_rules! nat_arms {
    ($n:ident, $by_ref:ident, $t:ty, $wrap:expr) => {
        match $n {
            Nat::U8(v) => if $by_ref { <$t>::try_from(&v).map($wrap).map_err(es) } else { <$t>::try_from(v).map($wrap).map_err(es) },
            Nat::U16(v) => if $by_ref { <$t>::try_from(&v).map($wrap).map_err(es) } else { <$t>::try_from(v).map($wrap).map_err(es) },
            Nat::U32(v) => if $by_ref { <$t>::try_from(&v).map($wrap).map_err(es) } else { <$t>::try_from(v).map($wrap).map_err(es) },
            Nat::U64(v) => if $by_ref { <$t>::try_from(&v).map($wrap).map_err(es) } else { <$t>::try_from(v).map($wrap).map_err(es) },
            Nat::U128(v) => if $by_ref { <$t>::try_from(&v).map($wrap).map_err(es) } else { <$t>::try_from(v).map($wrap).map_err(es) },
            Nat::Us(v) => if $by_ref { <$t>::try_from(&v).map($wrap).map_err(es) } else { <$t>::try_from(v).map($wrap).map_err(es) },
        }
    };
}

macro_rules! to_nat_arms {
    ($x:ident, $ty:ident, $by_value:ident) => {
        match $ty {
            NatTy::U8 => if $by_value { u8::try_from($x.clone()) } else { u8::try_from($x) }.map(Nat::U8).map_err(es),
            NatTy::U16 => if $by_value { u16::try_from($x.clone()) } else { u16::try_from($x) }.map(Nat::U16).map_err(es),
            NatTy::U32 => if $by_value { u32::try_from($x.clone()) } else { u32::try_from($x) }.map(Nat::U32).map_err(es),
            NatTy::U64 => if $by_value { u64::try_from($x.clone()) } else { u64::try_from($x) }.map(Nat::U64).map_err(es),
            NatTy::U128 => if $by_value { u128::try_from($x.clone()) } else { u128::try_from($x) }.map(Nat::U128).map_err(es),
            NatTy::Us => if $by_value { usize::try_from($x.clone()) } else { usize::try_from($x) }.map(Nat::Us).map_err(es),
        }
    };
}

macro_rules! slice_arms {
    ($ty:ident, $elems:ident, $t:ty, $wrap:expr) => {
        match $ty {
            NatTy::U8 => { let v: Vec<u8> = $elems.iter().map(|e| *e as u8).collect(); <$t>::try_from(&v[..]).map($wrap).map_err(es) }
            NatTy::U16 => { let v: Vec<u16> = $elems.iter().map(|e| *e as u16).collect(); <$t>::try_from(&v[..]).map($wrap).map_err(es) }
            NatTy::U32 => { let v: Vec<u32> = $elems.iter().map(|e| *e as u32).collect(); <$t>::try_from(&v[..]).map($wrap).map_err(es) }
            NatTy::U64 => { let v: Vec<u64> = $elems.iter().map(|e| *e as u64).collect(); <$t>::try_from(&v[..]).map($wrap).map_err(es) }
            NatTy::U128 => { let v: Vec<u128> = $elems.iter().map(|e| *e).collect(); <$t>::try_from(&v[..]).map($wrap).map_err(es) }
            NatTy::Us => { let v: Vec<usize> = $elems.iter().map(|e| *e as usize).collect(); <$t>::try_from(&v[..]).map($wrap).map_err(es) }
        }
    };
}

macro_rules! gen_nat {
    ([$(($v:ident, $t:ty)),+]) => {
        /// integer -> vector of kind `k`
        pub fn from_nat(k: K, n: Nat, by_ref: bool) -> Result<AnyBv, String> {
            match k {
                $( K::$v => nat_arms!(n, by_ref, $t, |y| AnyBv::$v(y)), )+
                K::D => nat_arms!(n, by_ref, Bvd, |y| AnyBv::D(y)),
                K::A => nat_arms!(n, by_ref, Bv, |y| AnyBv::A(y)),
            }
        }
        /// vector -> integer of type `ty`
        pub fn to_nat(x: &AnyBv, ty: NatTy, by_value: bool) -> Result<Nat, String> {
            match x {
                $( AnyBv::$v(x) => to_nat_arms!(x, ty, by_value), )+
                AnyBv::D(x) => to_nat_arms!(x, ty, by_value),
                AnyBv::A(x) => to_nat_arms!(x, ty, by_value),
            }
        }
        /// slice of integers of type `ty` -> vector of kind `k`
        pub fn from_slice(k: K, ty: NatTy, elems: &[u128]) -> Result<AnyBv, String> {
            match k {
                $( K::$v => slice_arms!(ty, elems, $t, |y| AnyBv::$v(y)), )+
                K::D => slice_arms!(ty, elems, Bvd, |y| AnyBv::D(y)),
                K::A => slice_arms!(ty, elems, Bv, |y| AnyBv::A(y)),
            }
        }
    };
}
fixed_list!(gen_nat);
