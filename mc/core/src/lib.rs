//! Reference model, closed enums over the types under test, and thin dispatch to the real code.
pub mod bits;
#[macro_use]
pub mod kinds;
pub mod act;
pub mod conv;
pub mod dispatch;
