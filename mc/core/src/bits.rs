//! Reference model: a bit vector is a plain list of booleans, index 0 least significant.
//! Everything here is written "the boring way" (no storage words anywhere); the only fast paths
//! are native `u128` arithmetic for values that fit and `num_bigint::BigUint` above 128 bits, both
//! tied to the bit-list algorithms by `selftest`.

use num_bigint::BigUint;
use std::cmp::Ordering;

#[derive(Clone, PartialEq, Eq, Hash, Debug, Default)]
pub struct Bits(pub Vec<bool>);

impl Bits {
    pub fn new() -> Self {
        Bits(Vec::new())
    }
    pub fn len(&self) -> usize {
        self.0.len()
    }
    pub fn is_empty(&self) -> bool {
        self.0.is_empty()
    }
    pub fn zeros(n: usize) -> Self {
        Bits(vec![false; n])
    }
    pub fn ones(n: usize) -> Self {
        Bits(vec![true; n])
    }
    pub fn get(&self, i: usize) -> bool {
        self.0[i]
    }
    /// bit i, zero beyond the end
    pub fn getz(&self, i: usize) -> bool {
        self.0.get(i).copied().unwrap_or(false)
    }
    pub fn from_u128(n: usize, v: u128) -> Self {
        Bits((0..n).map(|i| i < 128 && (v >> i) & 1 == 1).collect())
    }
    /// value of the low 128 bits
    pub fn low_u128(&self) -> u128 {
        let mut v = 0u128;
        for (i, b) in self.0.iter().enumerate().take(128) {
            if *b {
                v |= 1u128 << i;
            }
        }
        v
    }
    /// Some(value) iff the value fits 128 bits
    pub fn to_u128(&self) -> Option<u128> {
        if self.sig() <= 128 {
            Some(self.low_u128())
        } else {
            None
        }
    }
    /// number of significant bits (index of highest set bit + 1)
    pub fn sig(&self) -> usize {
        match self.0.iter().rposition(|b| *b) {
            Some(p) => p + 1,
            None => 0,
        }
    }
    pub fn is_zero(&self) -> bool {
        !self.0.iter().any(|b| *b)
    }
    pub fn popcount(&self) -> usize {
        self.0.iter().filter(|b| **b).count()
    }
    /// msb-first '0'/'1' string of exactly len characters
    pub fn to_binstr(&self) -> String {
        self.0.iter().rev().map(|b| if *b { '1' } else { '0' }).collect()
    }
    pub fn from_binstr(s: &str) -> Self {
        Bits(s.chars().rev().map(|c| c == '1').collect())
    }
    /// zero extend or truncate to n bits
    pub fn resized(&self, n: usize, fill: bool) -> Self {
        let mut v = self.0.clone();
        v.resize(n, fill);
        Bits(v)
    }
    pub fn concat_high(&self, high: &Bits) -> Self {
        let mut v = self.0.clone();
        v.extend_from_slice(&high.0);
        Bits(v)
    }
    pub fn slice(&self, s: usize, e: usize) -> Self {
        Bits(self.0[s..e].to_vec())
    }

    // ---------------------------------------------------------------- numeric compare
    pub fn cmp_num(&self, o: &Bits) -> Ordering {
        let n = self.len().max(o.len());
        for i in (0..n).rev() {
            match (self.getz(i), o.getz(i)) {
                (true, false) => return Ordering::Greater,
                (false, true) => return Ordering::Less,
                _ => {}
            }
        }
        Ordering::Equal
    }

    // ---------------------------------------------------------------- bit-list arithmetic
    /// (self + o) mod 2^len, ripple carry
    pub fn add_bl(&self, o: &Bits) -> Bits {
        let mut c = false;
        let mut r = Vec::with_capacity(self.len());
        for i in 0..self.len() {
            let a = self.0[i];
            let b = o.getz(i);
            r.push(a ^ b ^ c);
            c = (a & b) | (a & c) | (b & c);
        }
        Bits(r)
    }
    /// (self - o) mod 2^len, ripple borrow
    pub fn sub_bl(&self, o: &Bits) -> Bits {
        let mut c = false;
        let mut r = Vec::with_capacity(self.len());
        for i in 0..self.len() {
            let a = self.0[i];
            let b = o.getz(i);
            r.push(a ^ b ^ c);
            c = (!a & b) | (!a & c) | (b & c);
        }
        Bits(r)
    }
    /// (self * o) mod 2^len, shift and add
    pub fn mul_bl(&self, o: &Bits) -> Bits {
        let n = self.len();
        let mut acc = Bits::zeros(n);
        for j in 0..n.min(o.len()) {
            if o.0[j] {
                // acc += self << j
                let sh = Bits((0..n).map(|i| i >= j && self.0[i - j]).collect());
                acc = acc.add_bl(&sh);
            }
        }
        acc
    }
    /// floor division and remainder by shift-subtract over the full (unbounded) values; results
    /// have self's length. None if o is zero.
    pub fn divrem_bl(&self, o: &Bits) -> Option<(Bits, Bits)> {
        if o.is_zero() {
            return None;
        }
        let n = self.len();
        let w = n.max(o.len()) + 1;
        let d = o.resized(w, false);
        let mut rem = Bits::zeros(w);
        let mut q = vec![false; n];
        for i in (0..n).rev() {
            // rem = (rem << 1) | bit i
            let mut v = vec![self.0[i]];
            v.extend_from_slice(&rem.0[..w - 1]);
            rem = Bits(v);
            if rem.cmp_num(&d) != Ordering::Less {
                rem = rem.sub_bl(&d);
                q[i] = true;
            }
        }
        Some((Bits(q), rem.resized(n, false)))
    }

    // ---------------------------------------------------------------- fast arithmetic oracle
    pub fn to_big(&self) -> BigUint {
        let mut bytes = vec![0u8; (self.len() + 7) / 8];
        for (i, b) in self.0.iter().enumerate() {
            if *b {
                bytes[i / 8] |= 1 << (i % 8);
            }
        }
        BigUint::from_bytes_le(&bytes)
    }
    pub fn from_big(n: usize, v: &BigUint) -> Bits {
        let bytes = v.to_bytes_le();
        Bits((0..n)
            .map(|i| bytes.get(i / 8).map_or(false, |b| (b >> (i % 8)) & 1 == 1))
            .collect())
    }
    fn mask128(n: usize) -> u128 {
        if n >= 128 {
            u128::MAX
        } else {
            (1u128 << n) - 1
        }
    }
    pub fn add(&self, o: &Bits) -> Bits {
        let n = self.len();
        if n <= 128 {
            Bits::from_u128(n, self.low_u128().wrapping_add(o.low_u128()) & Self::mask128(n))
        } else {
            self.add_bl(o)
        }
    }
    pub fn sub(&self, o: &Bits) -> Bits {
        let n = self.len();
        if n <= 128 {
            Bits::from_u128(n, self.low_u128().wrapping_sub(o.low_u128()) & Self::mask128(n))
        } else {
            self.sub_bl(o)
        }
    }
    pub fn mul(&self, o: &Bits) -> Bits {
        let n = self.len();
        if n <= 128 {
            Bits::from_u128(n, self.low_u128().wrapping_mul(o.low_u128()) & Self::mask128(n))
        } else {
            let p = self.to_big() * o.to_big();
            Bits::from_big(n, &p)
        }
    }
    pub fn divrem(&self, o: &Bits) -> Option<(Bits, Bits)> {
        if o.is_zero() {
            return None;
        }
        let n = self.len();
        if n <= 128 {
            if o.sig() > 128 {
                return Some((Bits::zeros(n), self.clone()));
            }
            let a = self.low_u128();
            let b = o.low_u128();
            Some((Bits::from_u128(n, a / b), Bits::from_u128(n, a % b)))
        } else {
            let a = self.to_big();
            let b = o.to_big();
            Some((Bits::from_big(n, &(&a / &b)), Bits::from_big(n, &(&a % &b))))
        }
    }

    // ---------------------------------------------------------------- structural operations
    pub fn and(&self, o: &Bits) -> Bits {
        Bits((0..self.len()).map(|i| self.0[i] & o.getz(i)).collect())
    }
    pub fn or(&self, o: &Bits) -> Bits {
        Bits((0..self.len()).map(|i| self.0[i] | o.getz(i)).collect())
    }
    pub fn xor(&self, o: &Bits) -> Bits {
        Bits((0..self.len()).map(|i| self.0[i] ^ o.getz(i)).collect())
    }
    pub fn not(&self) -> Bits {
        Bits(self.0.iter().map(|b| !*b).collect())
    }
    /// logical shift left by k (k may be any size; None = "larger than usize")
    pub fn shl(&self, k: Option<usize>) -> Bits {
        let n = self.len();
        Bits((0..n)
            .map(|i| match k {
                Some(k) if i >= k => self.0[i - k],
                _ => false,
            })
            .collect())
    }
    pub fn shr(&self, k: Option<usize>) -> Bits {
        let n = self.len();
        Bits((0..n)
            .map(|i| match k {
                Some(k) => match i.checked_add(k) {
                    Some(j) if j < n => self.0[j],
                    _ => false,
                },
                None => false,
            })
            .collect())
    }
    /// bit at i moves to (i+k) mod n
    pub fn rotl(&self, k: usize) -> Bits {
        let n = self.len();
        if n == 0 {
            return self.clone();
        }
        let mut r = vec![false; n];
        for i in 0..n {
            r[(i + k) % n] = self.0[i];
        }
        Bits(r)
    }
    /// bit at i moves to (i-k) mod n
    pub fn rotr(&self, k: usize) -> Bits {
        let n = self.len();
        if n == 0 {
            return self.clone();
        }
        let mut r = vec![false; n];
        for i in 0..n {
            r[(i + n - (k % n)) % n] = self.0[i];
        }
        Bits(r)
    }

    // ---------------------------------------------------------------- run counts
    pub fn leading(&self, bit: bool) -> usize {
        self.0.iter().rev().take_while(|b| **b == bit).count()
    }
    pub fn trailing(&self, bit: bool) -> usize {
        self.0.iter().take_while(|b| **b == bit).count()
    }

    // ---------------------------------------------------------------- bytes
    /// ceil(len/8) bytes, little endian, unused high bits zero
    pub fn to_bytes_le(&self) -> Vec<u8> {
        let mut bytes = vec![0u8; (self.len() + 7) / 8];
        for (i, b) in self.0.iter().enumerate() {
            if *b {
                bytes[i / 8] |= 1 << (i % 8);
            }
        }
        bytes
    }
    pub fn to_bytes(&self, big: bool) -> Vec<u8> {
        let mut v = self.to_bytes_le();
        if big {
            v.reverse();
        }
        v
    }
    pub fn from_bytes(bytes: &[u8], big: bool) -> Bits {
        let n = bytes.len();
        Bits((0..n * 8)
            .map(|i| {
                let j = if big { n - 1 - i / 8 } else { i / 8 };
                (bytes[j] >> (i % 8)) & 1 == 1
            })
            .collect())
    }

    // ---------------------------------------------------------------- digits (minimal, "0" for zero)
    pub fn digits_pow2(&self, bits_per_digit: usize, upper: bool) -> String {
        let s = self.sig();
        if s == 0 {
            return "0".to_string();
        }
        let nd = (s + bits_per_digit - 1) / bits_per_digit;
        let mut out = String::with_capacity(nd);
        for d in (0..nd).rev() {
            let mut v = 0u32;
            for j in 0..bits_per_digit {
                if self.getz(d * bits_per_digit + j) {
                    v |= 1 << j;
                }
            }
            let c = std::char::from_digit(v, 16).unwrap();
            out.push(if upper { c.to_ascii_uppercase() } else { c });
        }
        out
    }
    /// decimal digits by repeated bit-list division by ten (slow, reference)
    pub fn digits_dec_bl(&self) -> String {
        let mut q = self.resized(self.sig().max(1), false);
        let ten = Bits::from_u128(4, 10);
        let mut out = Vec::new();
        while !q.is_zero() {
            let (nq, r) = q.divrem_bl(&ten).unwrap();
            out.push(std::char::from_digit(r.low_u128() as u32, 10).unwrap());
            q = nq;
        }
        if out.is_empty() {
            out.push('0');
        }
        out.iter().rev().collect()
    }
    pub fn digits_dec(&self) -> String {
        if self.sig() <= 128 {
            self.low_u128().to_string()
        } else {
            self.to_big().to_str_radix(10)
        }
    }
}
