//! Thin, macro-generated dispatch from the closed enums (`AnyBv`, `Opd`, `Nat`) to the concrete
//! trait implementations of the crate under test. Nothing here computes anything: every arm is a
//! single call of a public operator / conversion of `bva`.

use crate::kinds::*;
use bva::{Bv, Bvd, Bvf};
use std::cmp::Ordering;

#[derive(Clone, Copy, PartialEq, Eq, Hash, Debug)]
pub enum BinOp {
    Add,
    Sub,
    Mul,
    Div,
    Rem,
    And,
    Or,
    Xor,
}
pub const ALL_BINOPS: &[BinOp] = &[
    BinOp::Add,
    BinOp::Sub,
    BinOp::Mul,
    BinOp::Div,
    BinOp::Rem,
    BinOp::And,
    BinOp::Or,
    BinOp::Xor,
];
impl BinOp {
    pub fn name(self) -> &'static str {
        match self {
            BinOp::Add => "add",
            BinOp::Sub => "sub",
            BinOp::Mul => "mul",
            BinOp::Div => "div",
            BinOp::Rem => "rem",
            BinOp::And => "and",
            BinOp::Or => "or",
            BinOp::Xor => "xor",
        }
    }
    pub fn parse(s: &str) -> Option<BinOp> {
        ALL_BINOPS.iter().copied().find(|o| o.name() == s)
    }
}

/// Operator form: how the two operands are passed.
#[derive(Clone, Copy, PartialEq, Eq, Hash, Debug)]
pub enum Form {
    RefRef,
    RefVal,
    ValRef,
    ValVal,
    AsgRef,
    AsgVal,
}
pub const ALL_FORMS: &[Form] = &[Form::RefRef, Form::RefVal, Form::ValRef, Form::ValVal, Form::AsgRef, Form::AsgVal];
impl Form {
    pub fn name(self) -> &'static str {
        match self {
            Form::RefRef => "&a.&b",
            Form::RefVal => "&a.b",
            Form::ValRef => "a.&b",
            Form::ValVal => "a.b",
            Form::AsgRef => "a.=&b",
            Form::AsgVal => "a.=b",
        }
    }
    pub fn parse(s: &str) -> Option<Form> {
        ALL_FORMS.iter().copied().find(|o| o.name() == s)
    }
}

/// All kinds as (Variant, concrete type).
macro_rules! all_kinds {
    ($m:ident $(, $extra:tt)*) => {
        $m! { $($extra,)*
            [(F8x1, Bvf<u8, 1>), (F8x2, Bvf<u8, 2>), (F8x3, Bvf<u8, 3>),
             (F16x1, Bvf<u16, 1>), (F16x2, Bvf<u16, 2>),
             (F32x1, Bvf<u32, 1>), (F32x2, Bvf<u32, 2>),
             (F64x1, Bvf<u64, 1>), (F64x2, Bvf<u64, 2>), (F64x3, Bvf<u64, 3>), (F64x4, Bvf<u64, 4>),
             (FUx1, Bvf<usize, 1>), (FUx2, Bvf<usize, 2>),
             (F128x1, Bvf<u128, 1>), (F128x2, Bvf<u128, 2>),
             (D, Bvd), (A, Bv)]
        }
    };
}

macro_rules! forms {
    ($x:ident, $y:ident, $form:ident, $op:tt, $opa:tt) => {
        match $form {
            Form::RefRef => &*$x $op $y,
            Form::RefVal => &*$x $op $y.clone(),
            Form::ValRef => take($x) $op $y,
            Form::ValVal => take($x) $op $y.clone(),
            Form::AsgRef => { let mut t = take($x); t $opa $y; t }
            Form::AsgVal => { let mut t = take($x); t $opa $y.clone(); t }
        }
    };
}

macro_rules! bin_pair {
    ($x:ident, $y:ident, $op:ident, $form:ident) => {
        match $op {
            BinOp::Add => forms!($x, $y, $form, +, +=),
            BinOp::Sub => forms!($x, $y, $form, -, -=),
            BinOp::Mul => forms!($x, $y, $form, *, *=),
            BinOp::Div => forms!($x, $y, $form, /, /=),
            BinOp::Rem => forms!($x, $y, $form, %, %=),
            BinOp::And => forms!($x, $y, $form, &, &=),
            BinOp::Or => forms!($x, $y, $form, |, |=),
            BinOp::Xor => forms!($x, $y, $form, ^, ^=),
        }
    };
}

macro_rules! gen_lhs {
    ($rlist:tt, [$(($lv:ident, $lt:ty)),+]) => { $( gen_lhs!(@l $lv, $lt, $rlist); )+ };
    (@l $lv:ident, $lt:ty, [$(($rv:ident, $rt:ty)),+]) => {
        #[allow(non_snake_case)]
        pub mod $lv {
            use super::*;
            use bva::BitVector;

            fn take(x: &mut $lt) -> $lt {
                std::mem::replace(x, <$lt>::zeros(0))
            }

            /// `x op rhs` in the given form. For the by-reference forms `x` is left in place (so
            /// the caller can check it was not modified); otherwise it is moved out and replaced
            /// by an empty vector.
            #[inline(never)]
            pub fn bin(x: &mut $lt, op: BinOp, form: Form, rhs: &Opd) -> $lt {
                match rhs {
                    $( Opd::V(Vo { v: AnyBv::$rv(y), .. }) => bin_pair!(x, y, op, form), )+
                    Opd::N(Nat::U8(y)) => bin_pair!(x, y, op, form),
                    Opd::N(Nat::U16(y)) => bin_pair!(x, y, op, form),
                    Opd::N(Nat::U32(y)) => bin_pair!(x, y, op, form),
                    Opd::N(Nat::U64(y)) => bin_pair!(x, y, op, form),
                    Opd::N(Nat::U128(y)) => bin_pair!(x, y, op, form),
                    Opd::N(Nat::Us(y)) => bin_pair!(x, y, op, form),
                }
            }

            /// `div_rem` against every vector kind.
            #[inline(never)]
            pub fn div_rem(x: &$lt, rhs: &AnyBv) -> ($lt, $lt) {
                match rhs {
                    $( AnyBv::$rv(y) => x.div_rem::<$rt>(y), )+
                }
            }

            #[inline(never)]
            pub fn shift(x: &mut $lt, left: bool, form: Form, amt: &Nat) -> $lt {
                match amt {
                    Nat::U8(y) => if left { forms!(x, y, form, <<, <<=) } else { forms!(x, y, form, >>, >>=) },
                    Nat::U16(y) => if left { forms!(x, y, form, <<, <<=) } else { forms!(x, y, form, >>, >>=) },
                    Nat::U32(y) => if left { forms!(x, y, form, <<, <<=) } else { forms!(x, y, form, >>, >>=) },
                    Nat::U64(y) => if left { forms!(x, y, form, <<, <<=) } else { forms!(x, y, form, >>, >>=) },
                    Nat::U128(y) => if left { forms!(x, y, form, <<, <<=) } else { forms!(x, y, form, >>, >>=) },
                    Nat::Us(y) => if left { forms!(x, y, form, <<, <<=) } else { forms!(x, y, form, >>, >>=) },
                }
            }

            #[inline(never)]
            pub fn not(x: $lt, by_ref: bool) -> $lt {
                if by_ref { !&x } else { !x }
            }

            /// All comparison operators of x against y, in this operand order.
            #[inline(never)]
            pub fn compare(x: &$lt, rhs: &AnyBv) -> CmpObs {
                match rhs {
                    $( AnyBv::$rv(y) => CmpObs {
                        eq: x == y, ne: x != y, lt: x < y, le: x <= y, gt: x > y, ge: x >= y,
                        partial: x.partial_cmp(y),
                    }, )+
                }
            }

            #[inline(never)]
            pub fn append(x: &mut $lt, y: &AnyBv) {
                match y { $( AnyBv::$rv(y) => x.append(y), )+ }
            }
            #[inline(never)]
            pub fn prepend(x: &mut $lt, y: &AnyBv) {
                match y { $( AnyBv::$rv(y) => x.prepend(y), )+ }
            }
            #[inline(never)]
            pub fn insert(x: &mut $lt, i: usize, y: &AnyBv) {
                match y { $( AnyBv::$rv(y) => x.insert(i, y), )+ }
            }
        }
    };
}

#[derive(Clone, Copy, PartialEq, Eq, Debug)]
pub struct CmpObs {
    pub eq: bool,
    pub ne: bool,
    pub lt: bool,
    pub le: bool,
    pub gt: bool,
    pub ge: bool,
    pub partial: Option<Ordering>,
}

impl CmpObs {
    pub fn expected(o: Ordering) -> CmpObs {
        CmpObs {
            eq: o == Ordering::Equal,
            ne: o != Ordering::Equal,
            lt: o == Ordering::Less,
            le: o != Ordering::Greater,
            gt: o == Ordering::Greater,
            ge: o != Ordering::Less,
            partial: Some(o),
        }
    }
}

all_kinds!(all_kinds, gen_lhs);

macro_rules! gen_top {
    ([$(($v:ident, $t:ty)),+]) => {
        pub fn bin(mut x: AnyBv, op: BinOp, form: Form, rhs: &Opd) -> AnyBv {
            bin_mut(&mut x, op, form, rhs)
        }
        /// like `bin`, but the left operand stays visible to the caller (see `$v::bin`)
        pub fn bin_mut(x: &mut AnyBv, op: BinOp, form: Form, rhs: &Opd) -> AnyBv {
            match x { $( AnyBv::$v(x) => AnyBv::$v($v::bin(x, op, form, rhs)), )+ }
        }
        pub fn shift_mut(x: &mut AnyBv, left: bool, form: Form, amt: &Nat) -> AnyBv {
            match x { $( AnyBv::$v(x) => AnyBv::$v($v::shift(x, left, form, amt)), )+ }
        }
        pub fn div_rem(x: &AnyBv, rhs: &AnyBv) -> (AnyBv, AnyBv) {
            match x { $( AnyBv::$v(x) => { let (q, r) = $v::div_rem(x, rhs); (AnyBv::$v(q), AnyBv::$v(r)) } )+ }
        }
        pub fn shift(mut x: AnyBv, left: bool, form: Form, amt: &Nat) -> AnyBv {
            shift_mut(&mut x, left, form, amt)
        }
        pub fn not(x: AnyBv, by_ref: bool) -> AnyBv {
            match x { $( AnyBv::$v(x) => AnyBv::$v($v::not(x, by_ref)), )+ }
        }
        pub fn compare(x: &AnyBv, y: &AnyBv) -> CmpObs {
            match x { $( AnyBv::$v(x) => $v::compare(x, y), )+ }
        }
        pub fn append(x: &mut AnyBv, y: &AnyBv) {
            match x { $( AnyBv::$v(x) => $v::append(x, y), )+ }
        }
        pub fn prepend(x: &mut AnyBv, y: &AnyBv) {
            match x { $( AnyBv::$v(x) => $v::prepend(x, y), )+ }
        }
        pub fn insert(x: &mut AnyBv, i: usize, y: &AnyBv) {
            match x { $( AnyBv::$v(x) => $v::insert(x, i, y), )+ }
        }
        /// `Ord::cmp` (same type only)
        pub fn ord_cmp(x: &AnyBv, y: &AnyBv) -> Option<Ordering> {
            match (x, y) {
                $( (AnyBv::$v(x), AnyBv::$v(y)) => Some(Ord::cmp(x, y)), )+
                _ => None,
            }
        }
    };
}
all_kinds!(gen_top);
