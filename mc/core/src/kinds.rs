//! The concrete types under test, a closed enum over them, raw representation (state identity)
//! and construction of subjects from model bits.

use crate::bits::Bits;
use bva::{Bit, BitVector, Bv, Bvd, Bvf};

/// Invoke `$m!` with the list of fixed kinds: (Variant, word type, N).
#[macro_export]
macro_rules! fixed_kinds {
    ($m:ident $(, $extra:tt)*) => {
        $m! { $($extra,)*
            (F8x1, u8, 1), (F8x2, u8, 2), (F8x3, u8, 3),
            (F16x1, u16, 1), (F16x2, u16, 2),
            (F32x1, u32, 1), (F32x2, u32, 2),
            (F64x1, u64, 1), (F64x2, u64, 2), (F64x3, u64, 3), (F64x4, u64, 4),
            (FUx1, usize, 1), (FUx2, usize, 2),
            (F128x1, u128, 1), (F128x2, u128, 2)
        }
    };
}

macro_rules! def_any {
    ($d:tt, $(($v:ident, $i:ty, $n:literal)),+) => {
        #[derive(Clone, Copy, PartialEq, Eq, Hash, Debug, PartialOrd, Ord)]
        pub enum K { $($v,)+ D, A }

        #[derive(Clone, Debug)]
        pub enum AnyBv { $($v(Bvf<$i, $n>),)+ D(Bvd), A(Bv) }

        pub const ALL_KINDS: &[K] = &[$(K::$v,)+ K::D, K::A];
        pub const FIXED_KINDS: &[K] = &[$(K::$v,)+];

        impl K {
            pub fn name(self) -> &'static str {
                match self { $(K::$v => stringify!($v),)+ K::D => "D", K::A => "A" }
            }
            pub fn parse(s: &str) -> Option<K> {
                match s { $(stringify!($v) => Some(K::$v),)+ "D" => Some(K::D), "A" => Some(K::A), _ => None }
            }
            /// word size in bits
            pub fn word(self) -> usize {
                match self { $(K::$v => <$i>::BITS as usize,)+ K::D | K::A => 64 }
            }
            /// fixed capacity in bits, None for the growable kinds
            pub fn cap(self) -> Option<usize> {
                match self { $(K::$v => Some(<$i>::BITS as usize * $n),)+ K::D | K::A => None }
            }
            pub fn nwords(self) -> usize {
                match self { $(K::$v => $n,)+ K::D | K::A => 0 }
            }
        }

        impl AnyBv {
            pub fn kind(&self) -> K {
                match self { $(AnyBv::$v(_) => K::$v,)+ AnyBv::D(_) => K::D, AnyBv::A(_) => K::A }
            }
        }

        $(
            impl Subj for Bvf<$i, $n> {
                const KIND: K = K::$v;
                fn wrap(self) -> AnyBv { AnyBv::$v(self) }
                fn unwrap(a: AnyBv) -> Option<Self> { match a { AnyBv::$v(x) => Some(x), _ => None } }
                fn raw(&self) -> Raw {
                    let (data, len) = (*self).into_inner();
                    let mut bytes = Vec::with_capacity($n * std::mem::size_of::<$i>());
                    for w in data.iter() { bytes.extend_from_slice(&w.to_le_bytes()); }
                    Raw { kind: K::$v, mode: 0, len, bytes }
                }
            }
        )+

        /// Run `$body` with `$x` bound to the inner vector of whatever variant `$e` is.
        #[macro_export]
        macro_rules! on_any {
            ($d e:expr, $d x:ident => $d body:expr) => {
                match $d e {
                    $($crate::kinds::AnyBv::$v($d x) => $d body,)+
                    $crate::kinds::AnyBv::D($d x) => $d body,
                    $crate::kinds::AnyBv::A($d x) => $d body,
                }
            };
        }

        /// Run `$body` with type alias `$T` bound to the concrete type of kind `$k`.
        #[macro_export]
        macro_rules! on_kind {
            ($d k:expr, $d T:ident => $d body:expr) => {
                match $d k {
                    $($crate::kinds::K::$v => { type $d T = bva::Bvf<$i, $n>; $d body })+
                    $crate::kinds::K::D => { type $d T = bva::Bvd; $d body }
                    $crate::kinds::K::A => { type $d T = bva::Bv; $d body }
                }
            };
        }
    };
}

/// State identity: the concrete representation. `mode` is 0 for inline/fixed storage and 1 for
/// the heap variant of `Bv`. Used for identity only, never for a verdict.
#[derive(Clone, PartialEq, Eq, Hash, Debug, PartialOrd, Ord)]
pub struct Raw {
    pub kind: K,
    pub mode: u8,
    pub len: usize,
    pub bytes: Vec<u8>,
}

pub trait Subj: BitVector + Clone + Send + Sync + 'static {
    const KIND: K;
    fn wrap(self) -> AnyBv;
    fn unwrap(a: AnyBv) -> Option<Self>;
    fn raw(&self) -> Raw;
}

fixed_kinds!(def_any, $);

fn bvd_raw(kind: K, mode: u8, d: &Bvd) -> Raw {
    let (data, len) = d.clone().into_inner();
    let mut bytes = Vec::with_capacity(data.len() * 8);
    for w in data.iter() {
        bytes.extend_from_slice(&w.to_le_bytes());
    }
    Raw { kind, mode, len, bytes }
}

impl Subj for Bvd {
    const KIND: K = K::D;
    fn wrap(self) -> AnyBv {
        AnyBv::D(self)
    }
    fn unwrap(a: AnyBv) -> Option<Self> {
        match a {
            AnyBv::D(x) => Some(x),
            _ => None,
        }
    }
    fn raw(&self) -> Raw {
        bvd_raw(K::D, 0, self)
    }
}

impl Subj for Bv {
    const KIND: K = K::A;
    fn wrap(self) -> AnyBv {
        AnyBv::A(self)
    }
    fn unwrap(a: AnyBv) -> Option<Self> {
        match a {
            AnyBv::A(x) => Some(x),
            _ => None,
        }
    }
    fn raw(&self) -> Raw {
        match self {
            Bv::Fixed(f) => {
                let mut r = f.raw();
                r.kind = K::A;
                r.mode = 0;
                r
            }
            Bv::Dynamic(d) => bvd_raw(K::A, 1, d),
        }
    }
}

pub const INLINE_LIMIT: usize = 128;

impl Raw {
    /// The representation a freshly constructed vector (`zeros(n)` + `set`) of this kind has for
    /// model bits `m`, computed from the model alone. `selftest` and the observer sweeps assert
    /// that this prediction equals what the library really builds.
    pub fn predict(kind: K, m: &Bits) -> Raw {
        let n = m.len();
        let (mode, nbytes) = match kind {
            K::D => (0, (n + 63) / 64 * 8),
            K::A => {
                if n <= INLINE_LIMIT {
                    (0, 16)
                } else {
                    (1, (n + 63) / 64 * 8)
                }
            }
            k => (0, k.cap().unwrap() / 8),
        };
        let mut bytes = m.to_bytes_le();
        bytes.resize(nbytes, 0);
        Raw { kind, mode, len: n, bytes }
    }
    /// number of allocated storage bits
    pub fn storage_bits(&self) -> usize {
        self.bytes.len() * 8
    }
    /// true if every storage bit at a position >= len is zero (diagnostic only)
    pub fn padding_clean(&self) -> bool {
        let first_whole = (self.len + 7) / 8;
        if self.len % 8 != 0 && self.bytes[self.len / 8] >> (self.len % 8) != 0 {
            return false;
        }
        self.bytes[first_whole.min(self.bytes.len())..].iter().all(|b| *b == 0)
    }
    pub fn hex(&self) -> String {
        let mut s = String::new();
        for b in self.bytes.iter().rev() {
            s.push_str(&format!("{:02x}", b));
        }
        s
    }
}

pub fn b2bit(b: bool) -> Bit {
    if b {
        Bit::One
    } else {
        Bit::Zero
    }
}
pub fn bit2b(b: Bit) -> bool {
    b == Bit::One
}

/// `zeros(n)` + `set` for every set bit: the "freshly constructed vector" of C03.
pub fn fresh_t<T: Subj>(m: &Bits) -> T {
    let mut x = T::zeros(m.len());
    for (i, b) in m.0.iter().enumerate() {
        if *b {
            x.set(i, Bit::One);
        }
    }
    x
}

pub fn fresh(kind: K, m: &Bits) -> AnyBv {
    on_kind!(kind, T => fresh_t::<T>(m).wrap())
}

/// Visible bits of a subject through `len()` and `get()`.
pub fn read_bits_t<T: BitVector>(x: &T) -> Bits {
    Bits((0..x.len()).map(|i| x.get(i) == Bit::One).collect())
}

impl AnyBv {
    pub fn raw(&self) -> Raw {
        on_any!(self, x => x.raw())
    }
    pub fn bits(&self) -> Bits {
        on_any!(self, x => read_bits_t(x))
    }
    pub fn len(&self) -> usize {
        on_any!(self, x => x.len())
    }
    pub fn capacity(&self) -> usize {
        on_any!(self, x => BitVector::capacity(x))
    }
    /// is the representation bit-identical to the freshly constructed vector with these bits
    pub fn is_fresh_repr(&self, m: &Bits) -> bool {
        self.raw() == Raw::predict(self.kind(), m)
    }
}

// ------------------------------------------------------------------------------------------------
// native integers
// ------------------------------------------------------------------------------------------------

#[derive(Clone, Copy, PartialEq, Eq, Hash, Debug)]
pub enum NatTy {
    U8,
    U16,
    U32,
    U64,
    U128,
    Us,
}

pub const ALL_NAT: &[NatTy] = &[NatTy::U8, NatTy::U16, NatTy::U32, NatTy::U64, NatTy::U128, NatTy::Us];

impl NatTy {
    pub fn bits(self) -> usize {
        match self {
            NatTy::U8 => 8,
            NatTy::U16 => 16,
            NatTy::U32 => 32,
            NatTy::U64 | NatTy::Us => 64,
            NatTy::U128 => 128,
        }
    }
    pub fn name(self) -> &'static str {
        match self {
            NatTy::U8 => "u8",
            NatTy::U16 => "u16",
            NatTy::U32 => "u32",
            NatTy::U64 => "u64",
            NatTy::U128 => "u128",
            NatTy::Us => "usize",
        }
    }
    pub fn parse(s: &str) -> Option<NatTy> {
        ALL_NAT.iter().copied().find(|t| t.name() == s)
    }
    pub fn max(self) -> u128 {
        if self.bits() == 128 {
            u128::MAX
        } else {
            (1u128 << self.bits()) - 1
        }
    }
    /// Some(nat) iff v fits
    pub fn make(self, v: u128) -> Option<Nat> {
        if v > self.max() {
            return None;
        }
        Some(match self {
            NatTy::U8 => Nat::U8(v as u8),
            NatTy::U16 => Nat::U16(v as u16),
            NatTy::U32 => Nat::U32(v as u32),
            NatTy::U64 => Nat::U64(v as u64),
            NatTy::U128 => Nat::U128(v),
            NatTy::Us => Nat::Us(v as usize),
        })
    }
}

#[derive(Clone, Copy, PartialEq, Eq, Hash, Debug)]
pub enum Nat {
    U8(u8),
    U16(u16),
    U32(u32),
    U64(u64),
    U128(u128),
    Us(usize),
}

impl Nat {
    pub fn ty(self) -> NatTy {
        match self {
            Nat::U8(_) => NatTy::U8,
            Nat::U16(_) => NatTy::U16,
            Nat::U32(_) => NatTy::U32,
            Nat::U64(_) => NatTy::U64,
            Nat::U128(_) => NatTy::U128,
            Nat::Us(_) => NatTy::Us,
        }
    }
    pub fn val(self) -> u128 {
        match self {
            Nat::U8(v) => v as u128,
            Nat::U16(v) => v as u128,
            Nat::U32(v) => v as u128,
            Nat::U64(v) => v as u128,
            Nat::U128(v) => v,
            Nat::Us(v) => v as u128,
        }
    }
    /// model of the native integer as a bit list of its own width
    pub fn bits(self) -> Bits {
        Bits::from_u128(self.ty().bits(), self.val())
    }
    pub fn show(self) -> String {
        format!("{}:{}", self.ty().name(), self.val())
    }
    pub fn parse(s: &str) -> Option<Nat> {
        let (t, v) = s.split_once(':')?;
        NatTy::parse(t)?.make(v.parse().ok()?)
    }
}

/// How a vector operand / root was produced.
#[derive(Clone, Copy, PartialEq, Eq, Hash, Debug, PartialOrd, Ord)]
pub enum Prov {
    /// zeros + set
    Fresh,
    /// from_binary
    BinStr,
    /// built longer with ones on top, then truncated
    Trunc,
    /// Fresh then reserve(1)
    Reserve1,
    /// Fresh then reserve(200)
    Reserve200,
    /// with_capacity(300) then extend
    WithCap,
    /// Bv only: heap variant with exactly ceil(len/64) words (through Bvf<u64,4>)
    DynExact,
    /// converted from a Bvd / from a Bv (for Bvd)
    Conv,
    /// `!` applied twice
    NotNot,
    /// resized to len+200 then truncated back (spare capacity left by shrinking)
    GrowShrink,
    /// with_capacity(c) then extend
    Cap(u16),
    /// zeros(n) -= c with c = 2^n - value: the value arrives through a borrow out of the top
    SubWrap,
    /// ones(n) += value + 1: the value arrives through a carry out of the top
    AddWrap,
    /// resize(up, One) then truncate back (fixed kinds too, within the capacity)
    GrowOnes,
    /// built longer with ones on top, truncated to one bit below the last word boundary, then the
    /// remaining bits pushed one by one across that boundary
    ShrinkPush,
}

pub const ALL_PROVS: &[Prov] = &[
    Prov::Fresh,
    Prov::BinStr,
    Prov::Trunc,
    Prov::Reserve1,
    Prov::Reserve200,
    Prov::WithCap,
    Prov::DynExact,
    Prov::Conv,
    Prov::NotNot,
    Prov::GrowShrink,
    Prov::SubWrap,
    Prov::AddWrap,
    Prov::GrowOnes,
    Prov::ShrinkPush,
];

impl Prov {
    pub fn name(self) -> String {
        match self {
            Prov::Fresh => "fresh".into(),
            Prov::BinStr => "binstr".into(),
            Prov::Trunc => "trunc".into(),
            Prov::Reserve1 => "reserve1".into(),
            Prov::Reserve200 => "reserve200".into(),
            Prov::WithCap => "withcap".into(),
            Prov::DynExact => "dynexact".into(),
            Prov::Conv => "conv".into(),
            Prov::NotNot => "notnot".into(),
            Prov::GrowShrink => "growshrink".into(),
            Prov::Cap(c) => format!("cap:{}", c),
            Prov::SubWrap => "subwrap".into(),
            Prov::AddWrap => "addwrap".into(),
            Prov::GrowOnes => "growones".into(),
            Prov::ShrinkPush => "shrinkpush".into(),
        }
    }
    pub fn parse(s: &str) -> Option<Prov> {
        if let Some(c) = s.strip_prefix("cap:") {
            return c.parse().ok().map(Prov::Cap);
        }
        ALL_PROVS.iter().copied().find(|p| p.name() == s)
    }
    pub fn applies(self, kind: K, len: usize) -> bool {
        match self {
            Prov::Fresh | Prov::BinStr | Prov::NotNot | Prov::Conv => true,
            Prov::Trunc => kind.cap().map_or(true, |c| len < c),
            Prov::Reserve1 | Prov::Reserve200 | Prov::WithCap | Prov::GrowShrink | Prov::Cap(_) => kind == K::D || kind == K::A,
            Prov::DynExact => kind == K::A,
            Prov::SubWrap | Prov::AddWrap => len > 0,
            Prov::GrowOnes => kind.cap().map_or(true, |c| len < c),
            Prov::ShrinkPush => len >= 2 && (len - 1) / kind.word() >= 1,
        }
    }
    /// does this route leave spare capacity / non-default storage mode
    pub fn spare(self) -> bool {
        matches!(self, Prov::Reserve1 | Prov::Reserve200 | Prov::WithCap | Prov::GrowShrink | Prov::DynExact | Prov::Cap(_))
    }
}

/// A vector operand together with the route that built it (needed to write replay files).
#[derive(Clone, Debug)]
pub struct Vo {
    pub v: AnyBv,
    pub p: Prov,
}

/// Right-hand operand of a binary operator.
#[derive(Clone, Debug)]
pub enum Opd {
    V(Vo),
    N(Nat),
}

impl Opd {
    pub fn bits(&self) -> Bits {
        match self {
            Opd::V(v) => v.v.bits(),
            Opd::N(n) => n.bits(),
        }
    }
    pub fn kind_name(&self) -> &'static str {
        match self {
            Opd::V(v) => v.v.kind().name(),
            Opd::N(n) => n.ty().name(),
        }
    }
    pub fn is_vec(&self) -> bool {
        matches!(self, Opd::V(_))
    }
}
