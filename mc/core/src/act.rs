//! Actions = the transition alphabet. Each action can be executed on the real object
//! (`apply`) and on the reference model (`model`), and (de)serialised for replay files.

use crate::bits::Bits;
use crate::conv;
use crate::dispatch::{self, BinOp, Form};
use crate::kinds::*;
use bva::{Bit, Bv, Bvd, Endianness};

/// Ways of rebuilding the subject from what it shows publicly.
#[derive(Clone, Copy, PartialEq, Eq, Hash, Debug)]
pub enum Rb {
    /// convert to kind K (by reference) and back
    Via(K),
    /// from_bytes(to_vec(e)) then truncate to the original length
    Bytes(bool),
    /// read(write(e), len, e)
    ReadWrite(bool),
    /// new(into_inner())  (Bvf/Bvd only; identity for Bv)
    NewInner,
    /// from_binary of the zero padded {:b} text
    BinStr,
    /// collect from own iterator
    Collect,
    /// collect from own iterator wrapped in a `filter` (size_hint lower bound 0)
    CollectNoHint,
}

#[derive(Clone, Debug)]
pub enum Act {
    Push(bool),
    Pop,
    Set(usize, bool),
    Resize(usize, bool),
    Truncate(usize),
    SignExtend(usize),
    Append(Vo),
    Prepend(Vo),
    Insert(usize, Vo),
    Extend(Bits),
    /// extend from an iterator whose size_hint lower bound is 0 (a `filter`)
    ExtendNoHint(Bits),
    ShlIn(bool),
    ShrIn(bool),
    Rotl(usize),
    Rotr(usize),
    Shift { left: bool, amt: Nat, form: Form },
    Not { by_ref: bool },
    Bin { op: BinOp, form: Form, rhs: Opd },
    /// div_rem(&rhs): subject unchanged, observation = (quotient, remainder)
    DivRem(Vo),
    /// split_off(i): subject keeps the low part, observation = high part
    SplitOff(usize),
    /// split(i) -> (high, low): subject := low, observation = high
    Split(usize),
    /// copy_range(s..e): subject unchanged, observation = slice
    CopyRange(usize, usize),
    /// subject := copy_range(s..e)
    TakeRange(usize, usize),
    Reserve(usize),
    ShrinkToFit,
    CloneIt,
    Rebuild(Rb),
}

#[derive(Clone, Debug)]
pub enum Obs {
    None,
    Bit(Option<bool>),
    V1(AnyBv),
    V2(AnyBv, AnyBv),
    /// an operation that returns Result gave Err (text of the error)
    Err(String),
}

fn endian(big: bool) -> Endianness {
    if big {
        Endianness::Big
    } else {
        Endianness::Little
    }
}

fn apply_g<T: Subj + Extend<Bit> + FromIterator<Bit>>(mut x: T, a: &Act) -> (T, Obs) {
    match a {
        Act::Push(b) => {
            x.push(b2bit(*b));
            (x, Obs::None)
        }
        Act::Pop => {
            let r = x.pop();
            (x, Obs::Bit(r.map(bit2b)))
        }
        Act::Set(i, b) => {
            x.set(*i, b2bit(*b));
            (x, Obs::None)
        }
        Act::Resize(n, b) => {
            x.resize(*n, b2bit(*b));
            (x, Obs::None)
        }
        Act::Truncate(n) => {
            x.truncate(*n);
            (x, Obs::None)
        }
        Act::SignExtend(n) => {
            x.sign_extend(*n);
            (x, Obs::None)
        }
        Act::Extend(bits) => {
            x.extend(bits.0.iter().map(|b| b2bit(*b)));
            (x, Obs::None)
        }
        Act::ExtendNoHint(bits) => {
            x.extend(bits.0.iter().filter(|_| true).map(|b| b2bit(*b)));
            (x, Obs::None)
        }
        Act::ShlIn(b) => {
            let r = x.shl_in(b2bit(*b));
            (x, Obs::Bit(Some(bit2b(r))))
        }
        Act::ShrIn(b) => {
            let r = x.shr_in(b2bit(*b));
            (x, Obs::Bit(Some(bit2b(r))))
        }
        Act::Rotl(k) => {
            x.rotl(*k);
            (x, Obs::None)
        }
        Act::Rotr(k) => {
            x.rotr(*k);
            (x, Obs::None)
        }
        Act::SplitOff(i) => {
            let h = x.split_off(*i);
            (x, Obs::V1(h.wrap()))
        }
        Act::Split(i) => {
            let (h, l) = x.split(*i);
            (l, Obs::V1(h.wrap()))
        }
        Act::CopyRange(s, e) => {
            let r = x.copy_range(*s..*e);
            (x, Obs::V1(r.wrap()))
        }
        Act::TakeRange(s, e) => {
            let r = x.copy_range(*s..*e);
            (r, Obs::None)
        }
        Act::CloneIt => {
            let y = x.clone();
            (y, Obs::None)
        }
        Act::Rebuild(Rb::Bytes(big)) => {
            let n = x.len();
            let v = x.to_vec(endian(*big));
            match T::from_bytes(&v, endian(*big)) {
                Ok(mut y) => {
                    y.truncate(n);
                    (y, Obs::None)
                }
                Err(e) => (x, Obs::Err(format!("{:?}", e))),
            }
        }
        Act::Rebuild(Rb::ReadWrite(big)) => {
            let n = x.len();
            let mut buf: Vec<u8> = Vec::new();
            x.write(&mut buf, endian(*big)).unwrap();
            let mut cur = std::io::Cursor::new(buf);
            match T::read(&mut cur, n, endian(*big)) {
                Ok(y) => (y, Obs::None),
                Err(e) => (x, Obs::Err(format!("{:?}", e.kind()))),
            }
        }
        Act::Rebuild(Rb::BinStr) => {
            let n = x.len();
            let s = format!("{:0width$b}", x, width = n);
            // an empty vector prints "0": parse the empty string instead
            let s = if n == 0 { String::new() } else { s };
            match T::from_binary(&s) {
                Ok(y) => (y, Obs::None),
                Err(e) => (x, Obs::Err(format!("{:?}", e))),
            }
        }
        Act::Rebuild(Rb::Collect) => {
            let y: T = x.iter().collect();
            (y, Obs::None)
        }
        Act::Rebuild(Rb::CollectNoHint) => {
            let y: T = x.iter().filter(|_| true).collect();
            (y, Obs::None)
        }
        _ => unreachable!("non-generic action reached apply_g: {:?}", a),
    }
}

/// Execute `a` on the real object. May panic (callers wrap it in `guard`).
pub fn apply(x: AnyBv, a: &Act) -> (AnyBv, Obs) {
    match a {
        Act::Append(y) => {
            let mut x = x;
            dispatch::append(&mut x, &y.v);
            (x, Obs::None)
        }
        Act::Prepend(y) => {
            let mut x = x;
            dispatch::prepend(&mut x, &y.v);
            (x, Obs::None)
        }
        Act::Insert(i, y) => {
            let mut x = x;
            dispatch::insert(&mut x, *i, &y.v);
            (x, Obs::None)
        }
        Act::Shift { left, amt, form } => (dispatch::shift(x, *left, *form, amt), Obs::None),
        Act::Not { by_ref } => (dispatch::not(x, *by_ref), Obs::None),
        Act::Bin { op, form, rhs } => (dispatch::bin(x, *op, *form, rhs), Obs::None),
        Act::DivRem(y) => {
            let (q, r) = dispatch::div_rem(&x, &y.v);
            (x, Obs::V2(q, r))
        }
        Act::Reserve(k) => {
            let mut x = x;
            match &mut x {
                AnyBv::D(d) => d.reserve(*k),
                AnyBv::A(b) => b.reserve(*k),
                _ => {}
            }
            (x, Obs::None)
        }
        Act::ShrinkToFit => {
            let mut x = x;
            match &mut x {
                AnyBv::D(d) => d.shrink_to_fit(),
                AnyBv::A(b) => b.shrink_to_fit(),
                _ => {}
            }
            (x, Obs::None)
        }
        Act::Rebuild(Rb::Via(k)) => match conv::convert(&x, *k, false) {
            Ok(y) => match conv::convert(&y, x.kind(), false) {
                Ok(z) => (z, Obs::None),
                Err(e) => (x, Obs::Err(e)),
            },
            Err(e) => (x, Obs::Err(e)),
        },
        Act::Rebuild(Rb::NewInner) => (conv::new_inner(x), Obs::None),
        _ => on_any!(x, x => { let (y, o) = apply_g(x, a); (y.wrap(), o) }),
    }
}

// ------------------------------------------------------------------------------------------------
// model side
// ------------------------------------------------------------------------------------------------

#[derive(Clone, Debug, PartialEq, Eq)]
pub enum ExpObs {
    None,
    Bit(Option<bool>),
    B1(Bits),
    B2(Bits, Bits),
    /// Ok or this error text
    Err(&'static str),
}

#[derive(Clone, Debug, PartialEq, Eq)]
pub enum Exp {
    /// must return; subject's new bits and the expected observation
    Ok { m: Bits, obs: ExpObs },
    /// must return a vector of this length; its bits are not specified
    OkLenOnly(usize),
    /// must panic (in every profile)
    Panic,
    /// must panic when debug assertions are on, unspecified otherwise
    PanicDbg,
    /// the properties do not say what happens
    Unspecified,
}

/// What the properties demand for action `a` on a subject of kind `kind` whose bits are `m`.
pub fn model(kind: K, m: &Bits, a: &Act) -> Exp {
    let n = m.len();
    let cap = kind.cap();
    let fits = |l: usize| cap.map_or(true, |c| l <= c);
    let ok = |m: Bits| Exp::Ok { m, obs: ExpObs::None };
    match a {
        Act::Push(b) => {
            if !fits(n + 1) {
                return Exp::Panic;
            }
            let mut v = m.clone();
            v.0.push(*b);
            ok(v)
        }
        Act::Pop => {
            let mut v = m.clone();
            let r = v.0.pop();
            Exp::Ok { m: v, obs: ExpObs::Bit(r) }
        }
        Act::Set(i, b) => {
            if *i >= n {
                return Exp::PanicDbg;
            }
            let mut v = m.clone();
            v.0[*i] = *b;
            ok(v)
        }
        Act::Resize(l, b) => {
            if !fits(*l) {
                return Exp::Panic;
            }
            ok(m.resized(*l, *b))
        }
        Act::Truncate(l) => ok(if *l < n { m.resized(*l, false) } else { m.clone() }),
        Act::SignExtend(l) => {
            if *l <= n {
                return ok(m.clone());
            }
            if !fits(*l) {
                return Exp::Panic;
            }
            if n == 0 {
                // no previous top bit: the property only fixes the resulting length
                return Exp::OkLenOnly(*l);
            }
            ok(m.resized(*l, m.0[n - 1]))
        }
        Act::Append(y) => {
            let yb = y.v.bits();
            if !fits(n + yb.len()) {
                return Exp::Panic;
            }
            ok(m.concat_high(&yb))
        }
        Act::Prepend(y) => {
            let yb = y.v.bits();
            if !fits(n + yb.len()) {
                return Exp::Panic;
            }
            ok(yb.concat_high(m))
        }
        Act::Insert(i, y) => {
            if *i > n {
                return Exp::PanicDbg;
            }
            let yb = y.v.bits();
            if !fits(n + yb.len()) {
                return Exp::Panic;
            }
            let lo = m.slice(0, *i);
            let hi = m.slice(*i, n);
            ok(lo.concat_high(&yb).concat_high(&hi))
        }
        Act::Extend(b) | Act::ExtendNoHint(b) => {
            if !fits(n + b.len()) {
                return Exp::Panic;
            }
            ok(m.concat_high(b))
        }
        Act::ShlIn(b) => {
            if n == 0 {
                return Exp::Ok { m: m.clone(), obs: ExpObs::Bit(Some(*b)) };
            }
            let out = m.0[n - 1];
            let mut v = vec![*b];
            v.extend_from_slice(&m.0[..n - 1]);
            Exp::Ok { m: Bits(v), obs: ExpObs::Bit(Some(out)) }
        }
        Act::ShrIn(b) => {
            if n == 0 {
                return Exp::Ok { m: m.clone(), obs: ExpObs::Bit(Some(*b)) };
            }
            let out = m.0[0];
            let mut v = m.0[1..].to_vec();
            v.push(*b);
            Exp::Ok { m: Bits(v), obs: ExpObs::Bit(Some(out)) }
        }
        Act::Rotl(k) => {
            if *k > n {
                return Exp::Unspecified;
            }
            ok(m.rotl(*k))
        }
        Act::Rotr(k) => {
            if *k > n {
                return Exp::Unspecified;
            }
            ok(m.rotr(*k))
        }
        Act::Shift { left, amt, .. } => {
            let k = usize::try_from(amt.val()).ok();
            ok(if *left { m.shl(k) } else { m.shr(k) })
        }
        Act::Not { .. } => ok(m.not()),
        Act::Bin { op, rhs, .. } => {
            let b = rhs.bits();
            match op {
                BinOp::Add => ok(m.add(&b)),
                BinOp::Sub => ok(m.sub(&b)),
                BinOp::Mul => ok(m.mul(&b)),
                BinOp::And => ok(m.and(&b)),
                BinOp::Or => ok(m.or(&b)),
                BinOp::Xor => ok(m.xor(&b)),
                BinOp::Div => match m.divrem(&b) {
                    None => Exp::Panic,
                    Some((q, _)) => ok(q),
                },
                BinOp::Rem => match m.divrem(&b) {
                    None => Exp::Panic,
                    Some((_, r)) => ok(r),
                },
            }
        }
        Act::DivRem(y) => match m.divrem(&y.v.bits()) {
            None => Exp::Panic,
            Some((q, r)) => Exp::Ok { m: m.clone(), obs: ExpObs::B2(q, r) },
        },
        Act::SplitOff(i) | Act::Split(i) => {
            if *i > n {
                return Exp::PanicDbg;
            }
            Exp::Ok { m: m.slice(0, *i), obs: ExpObs::B1(m.slice(*i, n)) }
        }
        Act::CopyRange(s, e) => {
            if *s > n || *e > n {
                return Exp::PanicDbg;
            }
            if s > e {
                return Exp::Unspecified;
            }
            Exp::Ok { m: m.clone(), obs: ExpObs::B1(m.slice(*s, *e)) }
        }
        Act::TakeRange(s, e) => {
            if *s > n || *e > n {
                return Exp::PanicDbg;
            }
            if s > e {
                return Exp::Unspecified;
            }
            ok(m.slice(*s, *e))
        }
        Act::Reserve(_) | Act::ShrinkToFit | Act::CloneIt => ok(m.clone()),
        Act::Rebuild(rb) => match rb {
            Rb::Via(k) => {
                if k.cap().map_or(false, |c| n > c) {
                    Exp::Ok { m: m.clone(), obs: ExpObs::Err("NotEnoughCapacity") }
                } else {
                    ok(m.clone())
                }
            }
            Rb::Bytes(_) => {
                // from_bytes yields 8*ceil(n/8) bits: beyond a fixed capacity only if n is within
                // the last partial byte of a capacity that is not a multiple of 8 (never: all are)
                ok(m.clone())
            }
            _ => ok(m.clone()),
        },
    }
}

// ------------------------------------------------------------------------------------------------
// guarded execution
// ------------------------------------------------------------------------------------------------

thread_local! {
    static IN_SUBJECT: std::cell::Cell<bool> = const { std::cell::Cell::new(false) };
}

/// Install a panic hook that is silent while the code under test runs and loud otherwise.
pub fn install_panic_hook() {
    let default = std::panic::take_hook();
    std::panic::set_hook(Box::new(move |info| {
        if !IN_SUBJECT.with(|c| c.get()) {
            default(info);
        }
    }));
}

/// Run `f` (code under test); Err(()) if it panicked.
pub fn guard<R>(f: impl FnOnce() -> R) -> Result<R, ()> {
    let prev = IN_SUBJECT.with(|c| c.replace(true));
    let r = std::panic::catch_unwind(std::panic::AssertUnwindSafe(f));
    IN_SUBJECT.with(|c| c.set(prev));
    r.map_err(|_| ())
}

// ------------------------------------------------------------------------------------------------
// text form (replay files)
// ------------------------------------------------------------------------------------------------

fn build_t<T: Subj + Extend<Bit>>(m: &Bits, p: Prov) -> T {
    match p {
        Prov::Fresh => fresh_t::<T>(m),
        Prov::BinStr => T::from_binary(m.to_binstr()).unwrap(),
        Prov::Trunc => {
            let extra = match T::KIND.cap() {
                Some(c) => (c - m.len()).min(T::KIND.word() + 1),
                None => 65,
            };
            let mut x = fresh_t::<T>(&m.concat_high(&Bits::ones(extra)));
            x.truncate(m.len());
            x
        }
        Prov::NotNot => {
            let x = fresh_t::<T>(m);
            // `!` is reached through dispatch (concrete types); here use the generic route
            let y = crate::dispatch::not(x.wrap(), false);
            let z = crate::dispatch::not(y, true);
            conv::unwrap_t::<T>(z)
        }
        Prov::WithCap | Prov::Cap(_) => {
            let c = if let Prov::Cap(c) = p { c as usize } else { 300 };
            let mut x = T::with_capacity(c);
            x.extend(m.0.iter().map(|b| b2bit(*b)));
            x
        }
        _ => unreachable!(),
    }
}

/// Build a vector of kind `kind` with bits `m` through route `p` (must satisfy `p.applies`).
pub fn build(kind: K, m: &Bits, p: Prov) -> AnyBv {
    match p {
        Prov::Reserve1 | Prov::Reserve200 => {
            let k = if p == Prov::Reserve1 { 1 } else { 200 };
            let (x, _) = apply(fresh(kind, m), &Act::Reserve(k));
            x
        }
        Prov::GrowShrink => {
            let (x, _) = apply(fresh(kind, m), &Act::Resize(m.len() + 200, true));
            let (x, _) = apply(x, &Act::Truncate(m.len()));
            x
        }
        Prov::DynExact => {
            if m.len() <= 256 {
                let f: bva::Bvf<u64, 4> = fresh_t(m);
                AnyBv::A(Bv::from(&f))
            } else {
                AnyBv::A(fresh_t::<Bv>(m))
            }
        }
        Prov::SubWrap => {
            // c = (2^n - value) mod 2^n; for value 0 subtract zero (no borrow, still a valid route)
            let n = m.len();
            let c = Bits::zeros(n).sub(m);
            let rhs = Opd::V(Vo { v: fresh(kind, &c), p: Prov::Fresh });
            crate::dispatch::bin(fresh(kind, &Bits::zeros(n)), crate::dispatch::BinOp::Sub, crate::dispatch::Form::AsgRef, &rhs)
        }
        Prov::AddWrap => {
            let n = m.len();
            let c = m.add(&Bits::from_u128(1, 1));
            let rhs = Opd::V(Vo { v: fresh(kind, &c), p: Prov::Fresh });
            crate::dispatch::bin(fresh(kind, &Bits::ones(n)), crate::dispatch::BinOp::Add, crate::dispatch::Form::AsgRef, &rhs)
        }
        Prov::GrowOnes => {
            let n = m.len();
            let up = kind.cap().map_or(n + kind.word() + 1, |c| c.min(n + 2 * kind.word() + 1));
            let (x, _) = apply(fresh(kind, m), &Act::Resize(up, true));
            let (x, _) = apply(x, &Act::Truncate(n));
            x
        }
        Prov::ShrinkPush => {
            let n = m.len();
            let w = kind.word();
            let b = (n - 1) / w * w;
            let cut = b - 1;
            let up = kind.cap().map_or(n + w, |c| c.min(n + w));
            let start = m.slice(0, cut).concat_high(&Bits::ones(up - cut));
            let (mut x, _) = apply(fresh(kind, &start), &Act::Truncate(cut));
            for i in cut..n {
                x = apply(x, &Act::Push(m.0[i])).0;
            }
            x
        }
        Prov::Conv => match kind {
            K::D => AnyBv::D(Bvd::from(&fresh_t::<Bv>(m))),
            K::A => AnyBv::A(Bv::from(&fresh_t::<Bvd>(m))),
            k => conv::convert(&AnyBv::D(fresh_t::<Bvd>(m)), k, false).unwrap(),
        },
        _ => on_kind!(kind, T => build_t::<T>(m, p).wrap()),
    }
}


impl Vo {
    pub fn new(kind: K, m: &Bits, p: Prov) -> Vo {
        Vo { v: build(kind, m, p), p }
    }
    /// text form `KIND/prov/binstring` ("-" for the empty bit string)
    pub fn show(&self) -> String {
        let b = self.v.bits();
        format!("{}/{}/{}", self.v.kind().name(), self.p.name(), if b.is_empty() { "-".to_string() } else { b.to_binstr() })
    }
    pub fn parse(s: &str) -> Option<Vo> {
        let mut it = s.split('/');
        let k = K::parse(it.next()?)?;
        let p = Prov::parse(it.next()?)?;
        let b = it.next()?;
        let m = if b == "-" { Bits::new() } else { Bits::from_binstr(b) };
        if !p.applies(k, m.len()) {
            return None;
        }
        Some(Vo::new(k, &m, p))
    }
}

fn b01(b: bool) -> &'static str {
    if b {
        "1"
    } else {
        "0"
    }
}
fn bstr(b: &Bits) -> String {
    if b.is_empty() {
        "-".to_string()
    } else {
        b.to_binstr()
    }
}

impl Rb {
    pub fn show(self) -> String {
        match self {
            Rb::Via(k) => format!("via:{}", k.name()),
            Rb::Bytes(big) => format!("bytes:{}", if big { "be" } else { "le" }),
            Rb::ReadWrite(big) => format!("rw:{}", if big { "be" } else { "le" }),
            Rb::NewInner => "new_inner".to_string(),
            Rb::BinStr => "binstr".to_string(),
            Rb::Collect => "collect".to_string(),
            Rb::CollectNoHint => "collect_nohint".to_string(),
        }
    }
    pub fn parse(s: &str) -> Option<Rb> {
        Some(match s {
            "bytes:le" => Rb::Bytes(false),
            "bytes:be" => Rb::Bytes(true),
            "rw:le" => Rb::ReadWrite(false),
            "rw:be" => Rb::ReadWrite(true),
            "new_inner" => Rb::NewInner,
            "binstr" => Rb::BinStr,
            "collect" => Rb::Collect,
            "collect_nohint" => Rb::CollectNoHint,
            _ => Rb::Via(K::parse(s.strip_prefix("via:")?)?),
        })
    }
}

impl Act {
    /// short operation name (site of a violation class)
    pub fn op_name(&self) -> String {
        match self {
            Act::Push(_) => "push".into(),
            Act::Pop => "pop".into(),
            Act::Set(..) => "set".into(),
            Act::Resize(..) => "resize".into(),
            Act::Truncate(_) => "truncate".into(),
            Act::SignExtend(_) => "sign_extend".into(),
            Act::Append(_) => "append".into(),
            Act::Prepend(_) => "prepend".into(),
            Act::Insert(..) => "insert".into(),
            Act::Extend(_) | Act::ExtendNoHint(_) => "extend".into(),
            Act::ShlIn(_) => "shl_in".into(),
            Act::ShrIn(_) => "shr_in".into(),
            Act::Rotl(_) => "rotl".into(),
            Act::Rotr(_) => "rotr".into(),
            Act::Shift { left, .. } => if *left { "shl".into() } else { "shr".into() },
            Act::Not { .. } => "not".into(),
            Act::Bin { op, .. } => op.name().into(),
            Act::DivRem(_) => "div_rem".into(),
            Act::SplitOff(_) => "split_off".into(),
            Act::Split(_) => "split".into(),
            Act::CopyRange(..) => "copy_range".into(),
            Act::TakeRange(..) => "take_range".into(),
            Act::Reserve(_) => "reserve".into(),
            Act::ShrinkToFit => "shrink_to_fit".into(),
            Act::CloneIt => "clone".into(),
            Act::Rebuild(rb) => format!("rebuild:{}", rb.show()),
        }
    }
    /// kind name of the vector / integer operand, if any
    pub fn rhs_name(&self) -> Option<String> {
        match self {
            Act::Append(v) | Act::Prepend(v) | Act::Insert(_, v) | Act::DivRem(v) => Some(v.v.kind().name().to_string()),
            Act::Bin { rhs, .. } => Some(rhs.kind_name().to_string()),
            Act::Shift { amt, .. } => Some(amt.ty().name().to_string()),
            _ => None,
        }
    }
    pub fn form_name(&self) -> Option<&'static str> {
        match self {
            Act::Bin { form, .. } | Act::Shift { form, .. } => Some(form.name()),
            Act::Not { by_ref } => Some(if *by_ref { "!&a" } else { "!a" }),
            _ => None,
        }
    }
    pub fn rhs_bits(&self) -> Option<Bits> {
        match self {
            Act::Append(v) | Act::Prepend(v) | Act::Insert(_, v) | Act::DivRem(v) => Some(v.v.bits()),
            Act::Bin { rhs, .. } => Some(rhs.bits()),
            _ => None,
        }
    }
    pub fn rhs_prov(&self) -> Option<Prov> {
        match self {
            Act::Append(v) | Act::Prepend(v) | Act::Insert(_, v) | Act::DivRem(v) => Some(v.p),
            Act::Bin { rhs: Opd::V(v), .. } => Some(v.p),
            _ => None,
        }
    }

    pub fn show(&self) -> String {
        match self {
            Act::Push(b) => format!("push {}", b01(*b)),
            Act::Pop => "pop".into(),
            Act::Set(i, b) => format!("set {} {}", i, b01(*b)),
            Act::Resize(n, b) => format!("resize {} {}", n, b01(*b)),
            Act::Truncate(n) => format!("truncate {}", n),
            Act::SignExtend(n) => format!("sign_extend {}", n),
            Act::Append(v) => format!("append {}", v.show()),
            Act::Prepend(v) => format!("prepend {}", v.show()),
            Act::Insert(i, v) => format!("insert {} {}", i, v.show()),
            Act::Extend(b) => format!("extend {}", bstr(b)),
            Act::ExtendNoHint(b) => format!("extend_nohint {}", bstr(b)),
            Act::ShlIn(b) => format!("shl_in {}", b01(*b)),
            Act::ShrIn(b) => format!("shr_in {}", b01(*b)),
            Act::Rotl(k) => format!("rotl {}", k),
            Act::Rotr(k) => format!("rotr {}", k),
            Act::Shift { left, amt, form } => format!("shift {} {} {}", if *left { "l" } else { "r" }, amt.show(), form.name()),
            Act::Not { by_ref } => format!("not {}", if *by_ref { "ref" } else { "val" }),
            Act::Bin { op, form, rhs } => format!(
                "bin {} {} {}",
                op.name(),
                form.name(),
                match rhs {
                    Opd::V(v) => v.show(),
                    Opd::N(n) => n.show(),
                }
            ),
            Act::DivRem(v) => format!("div_rem {}", v.show()),
            Act::SplitOff(i) => format!("split_off {}", i),
            Act::Split(i) => format!("split {}", i),
            Act::CopyRange(s, e) => format!("copy_range {} {}", s, e),
            Act::TakeRange(s, e) => format!("take_range {} {}", s, e),
            Act::Reserve(k) => format!("reserve {}", k),
            Act::ShrinkToFit => "shrink_to_fit".into(),
            Act::CloneIt => "clone".into(),
            Act::Rebuild(rb) => format!("rebuild {}", rb.show()),
        }
    }

    pub fn parse(s: &str) -> Option<Act> {
        let t: Vec<&str> = s.split_whitespace().collect();
        let b = |s: &str| s == "1";
        let u = |s: &str| s.parse::<usize>().ok();
        Some(match (t.first().copied()?, t.len()) {
            ("push", 2) => Act::Push(b(t[1])),
            ("pop", 1) => Act::Pop,
            ("set", 3) => Act::Set(u(t[1])?, b(t[2])),
            ("resize", 3) => Act::Resize(u(t[1])?, b(t[2])),
            ("truncate", 2) => Act::Truncate(u(t[1])?),
            ("sign_extend", 2) => Act::SignExtend(u(t[1])?),
            ("append", 2) => Act::Append(Vo::parse(t[1])?),
            ("prepend", 2) => Act::Prepend(Vo::parse(t[1])?),
            ("insert", 3) => Act::Insert(u(t[1])?, Vo::parse(t[2])?),
            ("extend", 2) => Act::Extend(if t[1] == "-" { Bits::new() } else { Bits::from_binstr(t[1]) }),
            ("extend_nohint", 2) => Act::ExtendNoHint(if t[1] == "-" { Bits::new() } else { Bits::from_binstr(t[1]) }),
            ("shl_in", 2) => Act::ShlIn(b(t[1])),
            ("shr_in", 2) => Act::ShrIn(b(t[1])),
            ("rotl", 2) => Act::Rotl(u(t[1])?),
            ("rotr", 2) => Act::Rotr(u(t[1])?),
            ("shift", 4) => Act::Shift { left: t[1] == "l", amt: Nat::parse(t[2])?, form: Form::parse(t[3])? },
            ("not", 2) => Act::Not { by_ref: t[1] == "ref" },
            ("bin", 4) => Act::Bin {
                op: BinOp::parse(t[1])?,
                form: Form::parse(t[2])?,
                rhs: if t[3].contains('/') { Opd::V(Vo::parse(t[3])?) } else { Opd::N(Nat::parse(t[3])?) },
            },
            ("div_rem", 2) => Act::DivRem(Vo::parse(t[1])?),
            ("split_off", 2) => Act::SplitOff(u(t[1])?),
            ("split", 2) => Act::Split(u(t[1])?),
            ("copy_range", 3) => Act::CopyRange(u(t[1])?, u(t[2])?),
            ("take_range", 3) => Act::TakeRange(u(t[1])?, u(t[2])?),
            ("reserve", 2) => Act::Reserve(u(t[1])?),
            ("shrink_to_fit", 1) => Act::ShrinkToFit,
            ("clone", 1) => Act::CloneIt,
            ("rebuild", 2) => Act::Rebuild(Rb::parse(t[1])?),
            _ => return None,
        })
    }
}
