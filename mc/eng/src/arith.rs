//! Engine `arith`: step-mode exploration (depth 1 from a completely enumerated root set) of the
//! binary operators, shifts, rotations and `!`  — properties C01 C02 C04 C05 C06 C20.

use crate::battery::Level;
use crate::common::*;
use crate::enumr;
use crate::report::{Part, Violation};
use mccore::act::{guard, Act};
use mccore::bits::Bits;
use mccore::dispatch::{self, BinOp, Form, ALL_FORMS};
use mccore::kinds::*;
use rayon::prelude::*;
use serde_json::{json, Value};
use std::collections::BTreeMap;
use std::sync::Arc;

// ------------------------------------------------------------------------------------------------
// operand domains
// ------------------------------------------------------------------------------------------------

/// Build every applicable provenance of (kind, m), check each against the freshly constructed
/// vector (identity or battery) and return the distinct representations.
pub fn roots_of(part: &mut Part, seen: &Seen, kind: K, m: &Bits, provs: &[Prov]) -> Vec<Vo> {
    let mut out: Vec<Vo> = Vec::new();
    let mut raws: Vec<Raw> = Vec::new();
    for p in provs {
        if !p.applies(kind, m.len()) {
            continue;
        }
        let built = guard(|| Vo::new(kind, m, *p));
        let mk = |what: &str, expected: String, observed: String, check: &str| Violation {
            op: format!("construct:{}", p.name()),
            lhs: kind.name().into(),
            rhs: "-".into(),
            form: "-".into(),
            flags: vec![],
            what: what.into(),
            root: format!("{}/{}/{}", kind.name(), p.name(), if m.is_empty() { "-".to_string() } else { m.to_binstr() }),
            ops: vec![],
            check: check.into(),
            expected,
            observed,
        };
        match built {
            Err(()) => part.violation(mk("panicked", "returns".into(), "panicked".into(), "state")),
            Ok(vo) => {
                part.transitions += 1;
                let bad = check_vector(part, seen, Level::Full, &vo.v, m, &mk, "");
                let r = vo.v.raw();
                if !bad && !raws.contains(&r) {
                    raws.push(r);
                    out.push(vo);
                }
            }
        }
    }
    out
}

pub const PROVS_PLAIN: &[Prov] = &[Prov::Fresh];
pub const PROVS_ALL: &[Prov] = ALL_PROVS;
/// provenances that can yield a representation different from the fresh one
pub const PROVS_SPARE: &[Prov] = &[Prov::Fresh, Prov::Reserve200, Prov::GrowShrink, Prov::DynExact, Prov::WithCap];
pub const PROVS_SPARE2: &[Prov] = &[Prov::Fresh, Prov::Reserve200, Prov::DynExact];

pub fn dom_full(part: &mut Part, seen: &Seen, kind: K, b: usize, provs: &[Prov]) -> Vec<Vo> {
    let b = kind.cap().map_or(b, |c| c.min(b));
    let mut v = Vec::new();
    for m in enumr::full_upto(b) {
        v.extend(roots_of(part, seen, kind, &m, provs));
    }
    v
}

pub fn dom_lat(part: &mut Part, seen: &Seen, kind: K, lengths: &[usize], runs: usize, provs: &[Prov]) -> Vec<Vo> {
    let mut v = Vec::new();
    for &l in lengths {
        for m in enumr::lat(l, kind.word(), runs) {
            v.extend(roots_of(part, seen, kind, &m, provs));
        }
    }
    v
}

fn nat_dom(ty: NatTy, complete_u8: bool, complete_u16: bool) -> Vec<Opd> {
    let v = if (ty == NatTy::U8 && complete_u8) || (ty == NatTy::U16 && complete_u16) { enumr::all_of(ty) } else { enumr::ul(ty) };
    v.into_iter().map(Opd::N).collect()
}

// ------------------------------------------------------------------------------------------------
// jobs
// ------------------------------------------------------------------------------------------------

struct PairJob {
    label: String,
    lhs: Arc<Vec<Vo>>,
    lo: usize,
    hi: usize,
    rhs: Arc<Vec<Opd>>,
    ops: Vec<BinOp>,
    forms: Vec<Form>,
    /// also run div_rem() for vector operands
    div_rem: bool,
}

fn count_nonvacuity(part: &mut Part, kind: K, m: &Bits, op: BinOp, rb: &Bits) {
    let n = m.len();
    if rb.len() > n {
        part.count("rhs_longer_than_lhs", 1);
        if rb.0[n..].iter().any(|b| *b) {
            part.count("rhs_set_bits_at_or_beyond_lhs_len", 1);
        }
    }
    if kind.cap().map_or(false, |c| rb.len() > c) {
        part.count("rhs_longer_than_lhs_capacity", 1);
    }
    if rb.is_empty() || n == 0 {
        part.count("empty_operand", 1);
    }
    if n <= 128 && n > 0 {
        let a = m.low_u128();
        let b = rb.low_u128();
        let w = kind.word();
        match op {
            BinOp::Add => {
                let mut k = 1;
                while k * w < n {
                    let mk = (1u128 << (k * w)) - 1;
                    if ((a & mk) + (b & mk)) >> (k * w) != 0 {
                        part.count("add_carry_across_word_boundary", 1);
                        break;
                    }
                    k += 1;
                }
                if n < 128 && (a + (b & ((1u128 << n) - 1))) >> n != 0 {
                    part.count("add_wrapped", 1);
                }
            }
            BinOp::Sub => {
                if n < 128 && (b & ((1u128 << n) - 1)) > a {
                    part.count("sub_wrapped", 1);
                }
            }
            BinOp::Mul => {
                if n < 64 && a.checked_mul(b & ((1u128 << n) - 1)).map_or(true, |p| p >> n != 0) {
                    part.count("mul_wrapped", 1);
                }
            }
            BinOp::Div | BinOp::Rem => {
                if rb.is_zero() {
                    part.count("zero_divisor", 1);
                } else if rb.sig() > n {
                    part.count("divisor_sig_longer_than_dividend_len", 1);
                }
            }
            _ => {}
        }
    }
}

fn run_pair_job(cfg: &Cfg, seen: &Seen, job: &PairJob, level: Level) -> Part {
    let mut part = Part::new();
    let before = part.transitions;
    for x in &job.lhs[job.lo..job.hi] {
        let m = x.v.bits();
        let root = x.show();
        let org = Origin { root: &root, prefix: &[] };
        let kind = x.v.kind();
        part.state(&x.v.raw());
        for r in job.rhs.iter() {
            let rb = r.bits();
            for &op in &job.ops {
                count_nonvacuity(&mut part, kind, &m, op, &rb);
                for &form in &job.forms {
                    let a = Act::Bin { op, form, rhs: r.clone() };
                    let out = step(cfg, &mut part, seen, level, &org, &x.v, &m, &a);
                    if let Some(y) = &out.next {
                        part.outcome(op.name(), crate::report::fingerprint(&y.raw()));
                    }
                }
            }
            if job.div_rem {
                if let Opd::V(v) = r {
                    let a = Act::DivRem(v.clone());
                    step(cfg, &mut part, seen, level, &org, &x.v, &m, &a);
                }
            }
        }
    }
    part.partitions.push(json!({"partition": job.label, "lhs_roots": job.hi - job.lo, "rhs_operands": job.rhs.len(),
        "transitions": part.transitions - before, "complete": true}));
    part
}

/// Split into jobs of at most `chunk` LHS roots.
#[allow(clippy::too_many_arguments)]
fn make_jobs(jobs: &mut Vec<PairJob>, label: &str, lhs: &Arc<Vec<Vo>>, rhs: &Arc<Vec<Opd>>, ops: &[BinOp], forms: &[Form], div_rem: bool, chunk: usize) {
    let mut lo = 0;
    while lo < lhs.len() {
        let hi = (lo + chunk).min(lhs.len());
        jobs.push(PairJob { label: format!("{}[{}..{}]", label, lo, hi), lhs: lhs.clone(), lo, hi, rhs: rhs.clone(), ops: ops.to_vec(), forms: forms.to_vec(), div_rem });
        lo = hi;
    }
}

fn to_opds(v: &[Vo]) -> Vec<Opd> {
    v.iter().map(|x| Opd::V(x.clone())).collect()
}

/// Common driver of the binary-operator properties.
pub struct BinPlan {
    pub ops: Vec<BinOp>,
    pub forms: Vec<Form>,
    pub div_rem: bool,
    /// FULL part: (lhs kinds, rhs kinds, bound)
    pub full_lhs: Vec<K>,
    pub full_rhs: Vec<K>,
    pub full_b: usize,
    /// extra deep FULL pairs: (lhs, rhs, bound)
    pub deep: Vec<(K, K, usize)>,
    /// LAT part
    pub lat_lhs: Vec<K>,
    pub lat_rhs_classes: Vec<K>,
    pub lat_same_kind: bool,
    pub lat_runs: usize,
    pub lat_short: bool,
    /// natives
    pub nat_complete_u8: bool,
    pub nat_complete_u16: bool,
    pub nat_full_b: usize,
}

pub fn run_bin_plan(cfg: &Cfg, plan: &BinPlan) -> (Part, Value, bool) {
    let seen = Seen::new();
    let mut part = Part::new();
    let mut jobs: Vec<PairJob> = Vec::new();

    // --- domains (each built once, roots validated) ---
    let mut full_doms: BTreeMap<(K, usize, bool), Arc<Vec<Vo>>> = BTreeMap::new();
    let mut get_full = |part: &mut Part, k: K, b: usize, as_lhs: bool| -> Arc<Vec<Vo>> {
        full_doms
            .entry((k, b, as_lhs))
            .or_insert_with(|| {
                let provs = if as_lhs { PROVS_SPARE } else { PROVS_SPARE2 };
                // provenance variants only up to a smaller bound (they multiply the domain)
                let mut v = dom_full(part, &seen, k, b, PROVS_PLAIN);
                if k == K::D || k == K::A {
                    let extra = dom_full(part, &seen, k, b.min(if as_lhs { 5 } else { 4 }), provs);
                    let have: std::collections::HashSet<Raw> = v.iter().map(|x| x.v.raw()).collect();
                    v.extend(extra.into_iter().filter(|x| !have.contains(&x.v.raw())));
                } else if b <= 6 {
                    // all provenances of fixed kinds must be representation-identical: just validate
                    dom_full(part, &seen, k, b.min(4), PROVS_ALL);
                }
                Arc::new(v)
            })
            .clone()
    };
    for &lk in &plan.full_lhs {
        let l = get_full(&mut part, lk, plan.full_b, true);
        for &rk in &plan.full_rhs {
            let r = Arc::new(to_opds(&get_full(&mut part, rk, plan.full_b, false)));
            make_jobs(&mut jobs, &format!("FULL-{} {}x{}", plan.full_b, lk.name(), rk.name()), &l, &r, &plan.ops, &plan.forms, plan.div_rem, 64);
        }
    }
    for &(lk, rk, b) in &plan.deep {
        let l = Arc::new(dom_full(&mut part, &seen, lk, b, PROVS_PLAIN));
        let r = Arc::new(to_opds(&dom_full(&mut part, &seen, rk, b, PROVS_PLAIN)));
        make_jobs(&mut jobs, &format!("FULL-{} {}x{}", b, lk.name(), rk.name()), &l, &r, &plan.ops, &plan.forms, plan.div_rem, 64);
    }
    // --- lattice ---
    let mut lat_doms: BTreeMap<(K, bool), Arc<Vec<Vo>>> = BTreeMap::new();
    let mut get_lat = |part: &mut Part, k: K, as_lhs: bool| -> Arc<Vec<Vo>> {
        lat_doms
            .entry((k, as_lhs))
            .or_insert_with(|| {
                let lengths = if plan.lat_short { enumr::lat_lengths_short(k) } else { enumr::lat_lengths(k) };
                let provs: &[Prov] = if k == K::D || k == K::A { if as_lhs { PROVS_SPARE } else { PROVS_SPARE2 } } else { PROVS_PLAIN };
                Arc::new(dom_lat(part, &seen, k, &lengths, if as_lhs { plan.lat_runs } else { plan.lat_runs.min(2) }, provs))
            })
            .clone()
    };
    for &lk in &plan.lat_lhs {
        let l = get_lat(&mut part, lk, true);
        let mut rks: Vec<K> = plan.lat_rhs_classes.clone();
        if plan.lat_same_kind && !rks.contains(&lk) {
            rks.push(lk);
        }
        for rk in rks {
            let r = Arc::new(to_opds(&get_lat(&mut part, rk, false)));
            make_jobs(&mut jobs, &format!("LAT {}x{}", lk.name(), rk.name()), &l, &r, &plan.ops, &plan.forms, plan.div_rem, 16);
        }
    }
    // --- native right-hand sides ---
    for &lk in ALL_KINDS {
        let mut l: Vec<Vo> = (*get_lat(&mut part, lk, true)).clone();
        if lk.word() == 8 || lk == K::D || lk == K::A || lk == K::F16x1 {
            l.extend((*get_full(&mut part, lk, plan.nat_full_b, true)).clone());
        }
        let l = Arc::new(l);
        for &ty in ALL_NAT {
            let r = Arc::new(nat_dom(ty, plan.nat_complete_u8, plan.nat_complete_u16 && lk.word() == 8));
            make_jobs(&mut jobs, &format!("NAT {}x{}", lk.name(), ty.name()), &l, &r, &plan.ops, &plan.forms, false, 32);
        }
    }

    let njobs = jobs.len();
    let level = Level::Lite;
    let capped = std::sync::atomic::AtomicUsize::new(0);
    let done = jobs
        .par_iter()
        .map(|j| {
            if cfg.out_of_time() {
                capped.fetch_add(1, std::sync::atomic::Ordering::Relaxed);
                let mut p = Part::new();
                p.partitions.push(json!({"partition": j.label, "complete": false, "reason": "wall-clock cap"}));
                return p;
            }
            run_pair_job(cfg, &seen, j, level)
        })
        .reduce(Part::new, Part::merge);
    let mut part = part.merge(done);
    let ncapped = capped.load(std::sync::atomic::Ordering::Relaxed);
    if ncapped > 0 {
        part.caps_hit.push(format!("wall-clock cap: {} of {} partitions not run", ncapped, njobs));
    }
    part.count("battery_distinct_states", seen.len() as u64);
    let bounds = json!({
        "ops": plan.ops.iter().map(|o| o.name()).collect::<Vec<_>>(),
        "forms": plan.forms.iter().map(|o| o.name()).collect::<Vec<_>>(),
        "full": {"bound_bits": plan.full_b, "lhs": plan.full_lhs.iter().map(|k| k.name()).collect::<Vec<_>>(), "rhs": plan.full_rhs.iter().map(|k| k.name()).collect::<Vec<_>>(),
                 "meaning": "every length 0..=B (capped by capacity) and every value of both operands"},
        "deep_full": plan.deep.iter().map(|(l, r, b)| format!("{}x{} B={}", l.name(), r.name(), b)).collect::<Vec<_>>(),
        "lattice": {"lhs": plan.lat_lhs.iter().map(|k| k.name()).collect::<Vec<_>>(), "rhs": plan.lat_rhs_classes.iter().map(|k| k.name()).collect::<Vec<_>>(),
                    "same_kind_rhs": plan.lat_same_kind, "max_runs_lhs": plan.lat_runs, "short_length_set": plan.lat_short},
        "native_rhs": {"types": ALL_NAT.iter().map(|t| t.name()).collect::<Vec<_>>(), "u8_complete": plan.nat_complete_u8, "u16_complete_for_u8_word_lhs": plan.nat_complete_u16},
        "partitions": njobs,
    });
    (part, bounds, true)
}
