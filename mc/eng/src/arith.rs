//! Engine `arith`: step-mode exploration (depth 1 from a completely enumerated root set) of the
//! binary operators, shifts, rotations and `!`  — properties C01 C02 C04 C05 C06 C20.

use crate::battery::Level;
use crate::common::*;
use crate::enumr;
use crate::report::{Part, Violation};
use mccore::act::{guard, Act};
use mccore::bits::Bits;
use mccore::dispatch::{self, BinOp, Form, ALL_FORMS};
use mccore::kinds::*;
use rayon::prelude::*;
use serde_json::{json, Value};
use std::collections::BTreeMap;
use std::sync::Arc;

// ------------------------------------------------------------------------------------------------
// operand domains
// ------------------------------------------------------------------------------------------------

/// Build every applicable provenance of (kind, m), check each against the freshly constructed
/// vector (identity or battery) and return the distinct representations.
pub fn roots_of(part: &mut Part, seen: &Seen, kind: K, m: &Bits, provs: &[Prov]) -> Vec<Vo> {
    let mut out: Vec<Vo> = Vec::new();
    let mut raws: Vec<Raw> = Vec::new();
    let counts = ROOT_FINDINGS_COUNT.load(std::sync::atomic::Ordering::Relaxed);
    for p in provs {
        if !p.applies(kind, m.len()) {
            continue;
        }
        let built = guard(|| Vo::new(kind, m, *p));
        let mk = |what: &str, expected: String, observed: String, check: &str| Violation {
            op: format!("construct:{}", p.name()),
            lhs: kind.name().into(),
            rhs: "-".into(),
            form: "-".into(),
            flags: vec![],
            what: what.into(),
            root: format!("{}/{}/{}", kind.name(), p.name(), if m.is_empty() { "-".to_string() } else { m.to_binstr() }),
            ops: vec![],
            check: check.into(),
            expected,
            observed,
        };
        match built {
            Err(()) => {
                if counts {
                    part.violation(mk("panicked", "returns".into(), "panicked".into(), "state"));
                } else {
                    part.count("roots_rejected_by_validation", 1);
                }
            }
            Ok(vo) => {
                part.transitions += 1;
                let bad = if counts {
                    check_vector(part, seen, Level::Full, &vo.v, m, &mk, "")
                } else {
                    // other properties: a root must show the requested bits; whether it carries hidden
                    // state is C03's question - it is kept, and the property's own oracle decides
                    // what it observes on it
                    part.state(&vo.v.raw());
                    let bad = &vo.v.bits() != m;
                    if bad {
                        part.count("roots_rejected_by_validation", 1);
                    }
                    bad
                };
                let r = vo.v.raw();
                if !bad && !raws.contains(&r) {
                    raws.push(r);
                    out.push(vo);
                }
            }
        }
    }
    out
}

pub const PROVS_PLAIN: &[Prov] = &[Prov::Fresh];
/// identity histories: routes through arithmetic wrap-around, growth with ones and truncation,
/// truncation followed by bit-by-bit regrowth across a word boundary. On a correct tree they all
/// produce the fresh representation (and are de-duplicated); a latent-state defect makes them differ.
pub const PROVS_HIST: &[Prov] = &[Prov::Fresh, Prov::Trunc, Prov::SubWrap, Prov::AddWrap, Prov::GrowOnes, Prov::ShrinkPush];
pub const PROVS_ALL: &[Prov] = ALL_PROVS;
/// provenances that can yield a representation different from the fresh one
pub const PROVS_SPARE: &[Prov] = &[Prov::Fresh, Prov::Reserve200, Prov::GrowShrink, Prov::DynExact, Prov::WithCap, Prov::SubWrap, Prov::AddWrap, Prov::ShrinkPush];
pub const PROVS_SPARE2: &[Prov] = &[Prov::Fresh, Prov::Reserve200, Prov::DynExact, Prov::ShrinkPush];

pub fn dom_full(part: &mut Part, seen: &Seen, kind: K, b: usize, provs: &[Prov]) -> Vec<Vo> {
    let b = kind.cap().map_or(b, |c| c.min(b));
    let mut v = Vec::new();
    for m in enumr::full_upto(b) {
        v.extend(roots_of(part, seen, kind, &m, provs));
    }
    v
}

pub fn dom_lat(part: &mut Part, seen: &Seen, kind: K, lengths: &[usize], runs: usize, provs: &[Prov]) -> Vec<Vo> {
    let mut v = Vec::new();
    for &l in lengths {
        for m in enumr::lat(l, kind.word(), runs) {
            v.extend(roots_of(part, seen, kind, &m, provs));
        }
    }
    v
}

fn nat_dom(ty: NatTy, complete_u8: bool, complete_u16: bool) -> Vec<Opd> {
    let v = if (ty == NatTy::U8 && complete_u8) || (ty == NatTy::U16 && complete_u16) { enumr::all_of(ty) } else { enumr::ul(ty) };
    v.into_iter().map(Opd::N).collect()
}

// ------------------------------------------------------------------------------------------------
// jobs
// ------------------------------------------------------------------------------------------------

struct PairJob {
    label: String,
    lhs: Arc<Vec<Vo>>,
    lo: usize,
    hi: usize,
    rhs: Arc<Vec<Opd>>,
    ops: Vec<BinOp>,
    forms: Vec<Form>,
    /// also run div_rem() for vector operands
    div_rem: bool,
}

fn count_nonvacuity(part: &mut Part, kind: K, m: &Bits, op: BinOp, rb: &Bits) {
    let n = m.len();
    if rb.len() > n {
        part.count("rhs_longer_than_lhs", 1);
        if rb.0[n..].iter().any(|b| *b) {
            part.count("rhs_set_bits_at_or_beyond_lhs_len", 1);
        }
    }
    if kind.cap().map_or(false, |c| rb.len() > c) {
        part.count("rhs_longer_than_lhs_capacity", 1);
    }
    if rb.is_empty() || n == 0 {
        part.count("empty_operand", 1);
    }
    if n <= 128 && n > 0 {
        let a = m.low_u128();
        let b = rb.low_u128();
        let w = kind.word();
        match op {
            BinOp::Add => {
                let mut k = 1;
                while k * w < n {
                    let mk = (1u128 << (k * w)) - 1;
                    if ((a & mk) + (b & mk)) >> (k * w) != 0 {
                        part.count("add_carry_across_word_boundary", 1);
                        break;
                    }
                    k += 1;
                }
                if n < 128 && (a + (b & ((1u128 << n) - 1))) >> n != 0 {
                    part.count("add_wrapped", 1);
                }
            }
            BinOp::Sub => {
                if n < 128 && (b & ((1u128 << n) - 1)) > a {
                    part.count("sub_wrapped", 1);
                }
            }
            BinOp::Mul => {
                if n < 64 && a.checked_mul(b & ((1u128 << n) - 1)).map_or(true, |p| p >> n != 0) {
                    part.count("mul_wrapped", 1);
                }
            }
            BinOp::Div | BinOp::Rem => {
                if rb.is_zero() {
                    part.count("zero_divisor", 1);
                } else if rb.sig() > n {
                    part.count("divisor_sig_longer_than_dividend_len", 1);
                }
            }
            _ => {}
        }
    }
}

fn run_pair_job(cfg: &Cfg, seen: &Seen, job: &PairJob, level: Level) -> Part {
    let mut part = Part::new();
    let before = part.transitions;
    for x in &job.lhs[job.lo..job.hi] {
        let m = x.v.bits();
        let root = x.show();
        let org = Origin::Fixed { root: &root, prefix: &[] };
        let kind = x.v.kind();
        part.state(&x.v.raw());
        for r in job.rhs.iter() {
            let rb = r.bits();
            for &op in &job.ops {
                count_nonvacuity(&mut part, kind, &m, op, &rb);
                for &form in &job.forms {
                    let a = Act::Bin { op, form, rhs: r.clone() };
                    let out = step(cfg, &mut part, seen, level, &org, &x.v, &m, &a);
                    if let Some(y) = &out.next {
                        part.outcome(op.name(), crate::report::fingerprint(&y.raw()));
                    }
                }
            }
            if job.div_rem {
                if let Opd::V(v) = r {
                    let a = Act::DivRem(v.clone());
                    step(cfg, &mut part, seen, level, &org, &x.v, &m, &a);
                }
            }
        }
    }
    part.partitions.push(json!({"partition": job.label, "lhs_roots": job.hi - job.lo, "rhs_operands": job.rhs.len(),
        "transitions": part.transitions - before, "complete": true}));
    part
}

/// Split into jobs of at most `chunk` LHS roots.
#[allow(clippy::too_many_arguments)]
fn make_jobs(jobs: &mut Vec<PairJob>, label: &str, lhs: &Arc<Vec<Vo>>, rhs: &Arc<Vec<Opd>>, ops: &[BinOp], forms: &[Form], div_rem: bool, chunk: usize) {
    let mut lo = 0;
    while lo < lhs.len() {
        let hi = (lo + chunk).min(lhs.len());
        jobs.push(PairJob { label: format!("{}[{}..{}]", label, lo, hi), lhs: lhs.clone(), lo, hi, rhs: rhs.clone(), ops: ops.to_vec(), forms: forms.to_vec(), div_rem });
        lo = hi;
    }
}

fn to_opds(v: &[Vo]) -> Vec<Opd> {
    v.iter().map(|x| Opd::V(x.clone())).collect()
}

/// Common driver of the binary-operator properties.
pub struct BinPlan {
    pub ops: Vec<BinOp>,
    pub forms: Vec<Form>,
    pub div_rem: bool,
    /// FULL part: (lhs kinds, rhs kinds, bound)
    pub full_lhs: Vec<K>,
    pub full_rhs: Vec<K>,
    pub full_b: usize,
    /// extra deep FULL pairs: (lhs, rhs, bound)
    pub deep: Vec<(K, K, usize)>,
    /// LAT part
    pub lat_lhs: Vec<K>,
    pub lat_rhs_classes: Vec<K>,
    pub lat_same_kind: bool,
    pub lat_runs: usize,
    pub lat_short: bool,
    /// natives
    pub nat_complete_u8: bool,
    pub nat_complete_u16: bool,
    pub nat_full_b: usize,
    /// word-lattice partitions (every word of the left operand in {0,1,MAX,MAX-1,top,~top})
    pub wordlat: bool,
}

pub fn run_bin_plan(cfg: &Cfg, plan: &BinPlan) -> (Part, Value, bool) {
    let seen = Seen::new();
    let mut part = Part::new();
    let mut jobs: Vec<PairJob> = Vec::new();

    // --- domains (each built once, roots validated) ---
    let mut full_doms: BTreeMap<(K, usize, bool), Arc<Vec<Vo>>> = BTreeMap::new();
    let mut get_full = |part: &mut Part, k: K, b: usize, as_lhs: bool| -> Arc<Vec<Vo>> {
        full_doms
            .entry((k, b, as_lhs))
            .or_insert_with(|| {
                let provs = if as_lhs { PROVS_SPARE } else { PROVS_SPARE2 };
                // provenance variants only up to a smaller bound (they multiply the domain)
                let mut v = dom_full(part, &seen, k, b, PROVS_PLAIN);
                if k == K::D || k == K::A {
                    let extra = dom_full(part, &seen, k, b.min(if as_lhs { 5 } else { 4 }), provs);
                    let have: std::collections::HashSet<Raw> = v.iter().map(|x| x.v.raw()).collect();
                    v.extend(extra.into_iter().filter(|x| !have.contains(&x.v.raw())));
                } else {
                    // identity histories of fixed kinds: identical representations on a correct tree
                    let extra = dom_full(part, &seen, k, b.min(6), PROVS_HIST);
                    let have: std::collections::HashSet<Raw> = v.iter().map(|x| x.v.raw()).collect();
                    v.extend(extra.into_iter().filter(|x| !have.contains(&x.v.raw())));
                }
                Arc::new(v)
            })
            .clone()
    };
    for &lk in &plan.full_lhs {
        let l = get_full(&mut part, lk, plan.full_b, true);
        for &rk in &plan.full_rhs {
            let r = Arc::new(to_opds(&get_full(&mut part, rk, plan.full_b, false)));
            make_jobs(&mut jobs, &format!("FULL-{} {}x{}", plan.full_b, lk.name(), rk.name()), &l, &r, &plan.ops, &plan.forms, plan.div_rem, 64);
        }
    }
    for &(lk, rk, b) in &plan.deep {
        let l = Arc::new(dom_full(&mut part, &seen, lk, b, PROVS_PLAIN));
        let r = Arc::new(to_opds(&dom_full(&mut part, &seen, rk, b, PROVS_PLAIN)));
        make_jobs(&mut jobs, &format!("FULL-{} {}x{}", b, lk.name(), rk.name()), &l, &r, &plan.ops, &plan.forms, plan.div_rem, 64);
    }
    // --- lattice ---
    let mut lat_doms: BTreeMap<(K, bool), Arc<Vec<Vo>>> = BTreeMap::new();
    let mut get_lat = |part: &mut Part, k: K, as_lhs: bool| -> Arc<Vec<Vo>> {
        lat_doms
            .entry((k, as_lhs))
            .or_insert_with(|| {
                let lengths = if plan.lat_short { enumr::lat_lengths_short(k) } else { enumr::lat_lengths(k) };
                let provs: &[Prov] = if k == K::D || k == K::A { if as_lhs { PROVS_SPARE } else { PROVS_SPARE2 } } else { PROVS_HIST };
                Arc::new(dom_lat(part, &seen, k, &lengths, if as_lhs { plan.lat_runs } else { plan.lat_runs.min(2) }, provs))
            })
            .clone()
    };
    for &lk in &plan.lat_lhs {
        let l = get_lat(&mut part, lk, true);
        let mut rks: Vec<K> = plan.lat_rhs_classes.clone();
        if plan.lat_same_kind && !rks.contains(&lk) {
            rks.push(lk);
        }
        for rk in rks {
            let r = Arc::new(to_opds(&get_lat(&mut part, rk, false)));
            make_jobs(&mut jobs, &format!("LAT {}x{}", lk.name(), rk.name()), &l, &r, &plan.ops, &plan.forms, plan.div_rem, 16);
        }
    }
    // --- word lattice: every word of the left operand takes each boundary word value ---
    if plan.wordlat {
        for &lk in ALL_KINDS {
            let w = lk.word();
            let top = lk.cap().unwrap_or(4 * w);
            let mut lvals: Vec<Vo> = Vec::new();
            for l in [top, top - 1, top - w + 1] {
                for m in enumr::wordlat(l, w, true) {
                    lvals.extend(roots_of(&mut part, &seen, lk, &m, PROVS_PLAIN));
                }
            }
            let l = Arc::new(lvals);
            // right operands: same kind (three values per word), a one-word vector of the same word
            // size, a wider-word and a narrower-word kind, Bvd
            let mut rks: Vec<K> = vec![lk, K::D];
            for cand in [K::F8x1, K::F16x1, K::F32x1, K::F64x1, K::F128x1, K::FUx1] {
                if cand.word() == w && cand != lk {
                    rks.push(cand);
                }
            }
            rks.push(if w >= 64 { K::F8x3 } else { K::F64x2 });
            for rk in rks {
                let rw = rk.word();
                let rtop = rk.cap().unwrap_or(top).min(top + rw);
                let mut rvals: Vec<Vo> = Vec::new();
                for rl in [rtop, rtop.saturating_sub(1), rw.min(rtop)] {
                    for m in enumr::wordlat(rl, rw, false) {
                        rvals.extend(roots_of(&mut part, &seen, rk, &m, PROVS_PLAIN));
                    }
                }
                let r = Arc::new(to_opds(&rvals));
                make_jobs(&mut jobs, &format!("WORDLAT {}x{}", lk.name(), rk.name()), &l, &r, &plan.ops, &plan.forms, plan.div_rem, 64);
            }
            // natives: word-lattice left operands against the native lattice of two types
            for ty in [NatTy::U8, NatTy::U64, NatTy::U128] {
                let r = Arc::new(nat_dom(ty, false, false));
                make_jobs(&mut jobs, &format!("WORDLAT {}x{}", lk.name(), ty.name()), &l, &r, &plan.ops, &[plan.forms[0]], false, 64);
            }
        }
    }
    // --- native right-hand sides ---
    for &lk in ALL_KINDS {
        let mut l: Vec<Vo> = (*get_lat(&mut part, lk, true)).clone();
        if lk.word() == 8 || lk == K::D || lk == K::A || lk == K::F16x1 {
            l.extend((*get_full(&mut part, lk, plan.nat_full_b, true)).clone());
        }
        let l = Arc::new(l);
        for &ty in ALL_NAT {
            let r = Arc::new(nat_dom(ty, plan.nat_complete_u8, plan.nat_complete_u16 && lk.word() == 8));
            make_jobs(&mut jobs, &format!("NAT {}x{}", lk.name(), ty.name()), &l, &r, &plan.ops, &plan.forms, false, 32);
        }
    }

    let njobs = jobs.len();
    let level = Level::Lite;
    let capped = std::sync::atomic::AtomicUsize::new(0);
    let done = jobs
        .par_iter()
        .map(|j| {
            if cfg.out_of_time() {
                capped.fetch_add(1, std::sync::atomic::Ordering::Relaxed);
                let mut p = Part::new();
                p.partitions.push(json!({"partition": j.label, "complete": false, "reason": "wall-clock cap"}));
                return p;
            }
            run_pair_job(cfg, &seen, j, level)
        })
        .reduce(Part::new, Part::merge);
    let mut part = part.merge(done);
    let ncapped = capped.load(std::sync::atomic::Ordering::Relaxed);
    if ncapped > 0 {
        part.caps_hit.push(format!("wall-clock cap: {} of {} partitions not run", ncapped, njobs));
    }
    part.count("battery_distinct_states", seen.len() as u64);
    let bounds = json!({
        "ops": plan.ops.iter().map(|o| o.name()).collect::<Vec<_>>(),
        "forms": plan.forms.iter().map(|o| o.name()).collect::<Vec<_>>(),
        "full": {"bound_bits": plan.full_b, "lhs": plan.full_lhs.iter().map(|k| k.name()).collect::<Vec<_>>(), "rhs": plan.full_rhs.iter().map(|k| k.name()).collect::<Vec<_>>(),
                 "meaning": "every length 0..=B (capped by capacity) and every value of both operands"},
        "deep_full": plan.deep.iter().map(|(l, r, b)| format!("{}x{} B={}", l.name(), r.name(), b)).collect::<Vec<_>>(),
        "lattice": {"lhs": plan.lat_lhs.iter().map(|k| k.name()).collect::<Vec<_>>(), "rhs": plan.lat_rhs_classes.iter().map(|k| k.name()).collect::<Vec<_>>(),
                    "same_kind_rhs": plan.lat_same_kind, "max_runs_lhs": plan.lat_runs, "short_length_set": plan.lat_short},
        "native_rhs": {"types": ALL_NAT.iter().map(|t| t.name()).collect::<Vec<_>>(), "u8_complete": plan.nat_complete_u8, "u16_complete_for_u8_word_lhs": plan.nat_complete_u16},
        "word_lattice": if plan.wordlat { "left operand at lengths C, C-1, C-W+1 (4W for Bvd/Bv): every word in {0,1,MAX,MAX-1,top bit,all but top}; right operands: same kind, one-word same-size kind, a wider/narrower-word kind, Bvd with every word in {0,1,MAX}; natives u8,u64,u128" } else { "not in this plan" },
        "partitions": njobs,
    });
    (part, bounds, true)
}

// ------------------------------------------------------------------------------------------------
// unary / amount-parameterised operations (shifts, rotations, not, shl_in/shr_in)
// ------------------------------------------------------------------------------------------------

/// Which single-operand actions to generate for a subject.
#[derive(Clone)]
pub enum UnaryAlphabet {
    /// `!a` and `!&a`
    Not,
    /// shifts: amounts = boundary set (typed per `typed`), forms
    Shifts { forms: Vec<Form>, all_types: bool },
    /// shifts by every value of one narrow amount type
    ShiftsComplete { ty: NatTy, forms: Vec<Form> },
    /// shl_in / shr_in with both bits
    ShiftIn,
    /// rotl/rotr by every k in 0..=n; `inverse` also applies the opposite rotation to the result
    Rot { inverse: bool },
}

fn unary_acts(alpha: &UnaryAlphabet, kind: K, n: usize) -> Vec<Act> {
    let mut v = Vec::new();
    match alpha {
        UnaryAlphabet::Not => {
            v.push(Act::Not { by_ref: false });
            v.push(Act::Not { by_ref: true });
        }
        UnaryAlphabet::Shifts { forms, all_types } => {
            let amts = if *all_types { enumr::amounts_typed(n, kind.word()) } else { enumr::amounts_narrowest(n, kind.word()) };
            for amt in amts {
                for &form in forms {
                    for left in [true, false] {
                        v.push(Act::Shift { left, amt, form });
                    }
                }
            }
        }
        UnaryAlphabet::ShiftsComplete { ty, forms } => {
            for amt in enumr::all_of(*ty) {
                for &form in forms {
                    for left in [true, false] {
                        v.push(Act::Shift { left, amt, form });
                    }
                }
            }
        }
        UnaryAlphabet::ShiftIn => {
            for b in [false, true] {
                v.push(Act::ShlIn(b));
                v.push(Act::ShrIn(b));
            }
        }
        UnaryAlphabet::Rot { .. } => {
            for k in 0..=n {
                v.push(Act::Rotl(k));
                v.push(Act::Rotr(k));
            }
        }
    }
    v
}

struct UnaryJob {
    label: String,
    lhs: Arc<Vec<Vo>>,
    lo: usize,
    hi: usize,
    alpha: UnaryAlphabet,
}

fn run_unary_job(cfg: &Cfg, seen: &Seen, job: &UnaryJob, level: Level) -> Part {
    let mut part = Part::new();
    let mut cache: BTreeMap<(K, usize), Vec<Act>> = BTreeMap::new();
    for x in &job.lhs[job.lo..job.hi] {
        let m = x.v.bits();
        let kind = x.v.kind();
        let n = m.len();
        let root = x.show();
        let org = Origin::Fixed { root: &root, prefix: &[] };
        part.state(&x.v.raw());
        let acts = cache.entry((kind, n)).or_insert_with(|| unary_acts(&job.alpha, kind, n));
        for a in acts.iter() {
            match a {
                Act::Shift { amt, .. } => {
                    if amt.val() > u64::MAX as u128 {
                        part.count("shift_amount_above_usize_max", 1);
                    } else if amt.val() >= n as u128 {
                        part.count("shift_amount_ge_len", 1);
                    } else if amt.val() > 0 && n > kind.word() {
                        part.count("shift_inside_multiword", 1);
                    }
                }
                Act::Rotl(k) | Act::Rotr(k) => {
                    if *k > 0 && *k < n && n > kind.word() {
                        part.count("rotation_across_word_boundary", 1);
                    }
                    if n == 0 {
                        part.count("rotation_of_empty", 1);
                    }
                }
                Act::ShlIn(_) | Act::ShrIn(_) => {
                    if n == 0 {
                        part.count("shift_in_on_empty", 1);
                    }
                }
                _ => {}
            }
            let out = step(cfg, &mut part, seen, level, &org, &x.v, &m, a);
            if let Some(y) = &out.next {
                part.outcome(&a.op_name(), crate::report::fingerprint(&y.raw()));
                if let UnaryAlphabet::Rot { inverse: true } = job.alpha {
                    // second step of the history: the opposite rotation must restore the original
                    let (inv, k) = match a {
                        Act::Rotl(k) => (Act::Rotr(*k), *k),
                        Act::Rotr(k) => (Act::Rotl(*k), *k),
                        _ => unreachable!(),
                    };
                    let m1 = y.bits();
                    let prefix = vec![a.show()];
                    let org2 = Origin::Fixed { root: &root, prefix: &prefix };
                    let out2 = step(cfg, &mut part, seen, level, &org2, y, &m1, &inv);
                    if let Some(z) = &out2.next {
                        if !out.violated && !out2.violated && z.bits() != m {
                            // cannot happen when both steps equal the model; kept as a harness self-check
                            panic!("harness: rotation inverse inconsistent with per-step oracle k={}", k);
                        }
                        if m1.popcount() != m.popcount() && !out.violated {
                            panic!("harness: popcount changed but step accepted");
                        }
                    }
                }
            }
        }
    }
    part.partitions.push(json!({"partition": job.label, "lhs_roots": job.hi - job.lo, "complete": true}));
    part
}

pub struct UnaryPlan {
    /// (kinds, FULL bound, alphabet)
    pub full: Vec<(Vec<K>, usize, UnaryAlphabet)>,
    /// (kinds, max runs, alphabet) on the lattice
    pub lat: Vec<(Vec<K>, usize, UnaryAlphabet)>,
    pub lat_short: bool,
    pub required: Vec<&'static str>,
}

pub fn run_unary_plan(cfg: &Cfg, plan: &UnaryPlan) -> (Part, Value, bool) {
    let seen = Seen::new();
    let mut part = Part::new();
    for r in &plan.required {
        part.require(r);
    }
    let mut jobs: Vec<UnaryJob> = Vec::new();
    let mut desc: Vec<Value> = Vec::new();
    for (kinds, b, alpha) in &plan.full {
        for &k in kinds {
            let provs: &[Prov] = if k == K::D || k == K::A { PROVS_SPARE } else { PROVS_HIST };
            // provenance variants only for the small lengths; plain fresh roots above
            let mut dom = dom_full(&mut part, &seen, k, (*b).min(6), provs);
            let have: std::collections::HashSet<Raw> = dom.iter().map(|x| x.v.raw()).collect();
            if *b > 6 {
                dom.extend(dom_full(&mut part, &seen, k, *b, PROVS_PLAIN).into_iter().filter(|x| !have.contains(&x.v.raw())));
            }
            let dom = Arc::new(dom);
            let chunk = if *b >= 14 { 2048 } else { 128 };
            let mut lo = 0;
            while lo < dom.len() {
                let hi = (lo + chunk).min(dom.len());
                jobs.push(UnaryJob { label: format!("FULL-{} {} [{}..{}]", b, k.name(), lo, hi), lhs: dom.clone(), lo, hi, alpha: alpha.clone() });
                lo = hi;
            }
            desc.push(json!({"domain": format!("FULL-{}", b.min(&k.cap().unwrap_or(*b))), "kind": k.name(), "roots": dom.len()}));
        }
    }
    for (kinds, runs, alpha) in &plan.lat {
        for &k in kinds {
            let provs: &[Prov] = if k == K::D || k == K::A { PROVS_SPARE } else { PROVS_HIST };
            let lengths = if plan.lat_short { enumr::lat_lengths_short(k) } else { enumr::lat_lengths(k) };
            let mut dom = dom_lat(&mut part, &seen, k, &lengths, *runs, provs);
            {
                // word lattice at the top lengths
                let mut have: std::collections::HashSet<Raw> = dom.iter().map(|x| x.v.raw()).collect();
                let w = k.word();
                let top = k.cap().unwrap_or(4 * w);
                for l in [top, top - 1, top - w + 1] {
                    for m in enumr::wordlat(l, w, !plan.lat_short) {
                        for x in roots_of(&mut part, &seen, k, &m, PROVS_PLAIN) {
                            if have.insert(x.v.raw()) {
                                dom.push(x);
                            }
                        }
                    }
                }
            }
            let dom = Arc::new(dom);
            let mut lo = 0;
            while lo < dom.len() {
                let hi = (lo + 16).min(dom.len());
                jobs.push(UnaryJob { label: format!("LAT {} [{}..{}]", k.name(), lo, hi), lhs: dom.clone(), lo, hi, alpha: alpha.clone() });
                lo = hi;
            }
            desc.push(json!({"domain": "LAT", "kind": k.name(), "lengths": lengths, "max_runs": runs, "roots": dom.len()}));
        }
    }
    let njobs = jobs.len();
    let capped = std::sync::atomic::AtomicUsize::new(0);
    let done = jobs
        .par_iter()
        .map(|j| {
            if cfg.out_of_time() {
                capped.fetch_add(1, std::sync::atomic::Ordering::Relaxed);
                let mut p = Part::new();
                p.partitions.push(json!({"partition": j.label, "complete": false, "reason": "wall-clock cap"}));
                return p;
            }
            run_unary_job(cfg, &seen, j, Level::Lite)
        })
        .reduce(Part::new, Part::merge);
    let mut part = part.merge(done);
    let ncapped = capped.load(std::sync::atomic::Ordering::Relaxed);
    if ncapped > 0 {
        part.caps_hit.push(format!("wall-clock cap: {} of {} partitions not run", ncapped, njobs));
    }
    part.count("battery_distinct_states", seen.len() as u64);
    (part, json!({"domains": desc, "partitions": njobs}), true)
}

// ------------------------------------------------------------------------------------------------
// C20: all operator forms agree; borrowed operands and earlier clones are untouched
// ------------------------------------------------------------------------------------------------

struct FormsJob {
    label: String,
    lhs: Arc<Vec<Vo>>,
    lo: usize,
    hi: usize,
    rhs: Arc<Vec<Opd>>,
    ops: Vec<BinOp>,
}

fn outcome_str(r: &Result<AnyBv, ()>) -> String {
    match r {
        Ok(y) => format!("len={} bits={}", y.len(), y.bits().to_binstr()),
        Err(()) => "panicked".into(),
    }
}

fn run_forms_job(cfg: &Cfg, seen: &Seen, job: &FormsJob) -> Part {
    let _ = cfg;
    let mut part = Part::new();
    for x in &job.lhs[job.lo..job.hi] {
        let xraw = x.v.raw();
        let m = x.v.bits();
        let root = x.show();
        let kind = x.v.kind();
        part.state(&xraw);
        for r in job.rhs.iter() {
            let rraw = match r {
                Opd::V(v) => Some(v.v.raw()),
                Opd::N(_) => None,
            };
            for &op in &job.ops {
                let mk = |form: Form, what: &str, expected: String, observed: String| Violation {
                    op: op.name().into(),
                    lhs: kind.name().into(),
                    rhs: r.kind_name().into(),
                    form: form.name().into(),
                    flags: flags(&x.v, &m, &Act::Bin { op, form, rhs: r.clone() }),
                    what: what.into(),
                    root: root.clone(),
                    ops: vec![Act::Bin { op, form, rhs: r.clone() }.show()],
                    check: "forms".into(),
                    expected,
                    observed,
                };
                let mut reference: Option<(Form, Result<AnyBv, ()>)> = None;
                for &form in ALL_FORMS {
                    let mut a = x.v.clone();
                    let keep = x.v.clone(); // "clone taken before an in-place operation"
                    let res = guard(|| dispatch::bin_mut(&mut a, op, form, r));
                    part.transitions += 1;
                    // operands passed by reference are untouched
                    if matches!(form, Form::RefRef | Form::RefVal) && res.is_ok() && a.raw() != xraw {
                        part.violation(mk(form, "lhs_modified", xraw.hex(), a.raw().hex()));
                    }
                    if keep.raw() != xraw || x.v.raw() != xraw {
                        part.violation(mk(form, "clone_modified", xraw.hex(), keep.raw().hex()));
                    }
                    if let (Some(rr), Opd::V(v)) = (&rraw, r) {
                        if &v.v.raw() != rr {
                            part.violation(mk(form, "rhs_modified", rr.hex(), v.v.raw().hex()));
                        }
                    }
                    if let Ok(y) = &res {
                        if y.kind() != kind {
                            part.violation(mk(form, "wrong_type", kind.name().into(), y.kind().name().into()));
                        }
                        part.outcome(op.name(), crate::report::fingerprint(&y.raw()));
                    } else {
                        part.count("forms_panicking", 1);
                    }
                    match &reference {
                        None => reference = Some((form, res)),
                        Some((f0, r0)) => {
                            let same = match (r0, &res) {
                                (Ok(a), Ok(b)) => a.len() == b.len() && a.bits() == b.bits(),
                                (Err(()), Err(())) => true,
                                _ => false,
                            };
                            if !same {
                                part.violation(mk(form, "forms_disagree", format!("{} gives {}", f0.name(), outcome_str(r0)), outcome_str(&res)));
                            } else if let Ok(y) = &res {
                                // same visible bits: any representation that is not the fresh one must
                                // also behave like it
                                let yb = y.bits();
                                let mkv = |what: &str, e: String, o: String, _c: &str| mk(form, what, e, o);
                                check_vector(&mut part, seen, Level::Lite, y, &yb, &mkv, "");
                            }
                        }
                    }
                }
                // native integer directly vs a vector built from it in each implementation
                if let Opd::N(nat) = r {
                    let direct = reference.as_ref().map(|(_, r)| r.clone()).unwrap();
                    for k2 in [K::F64x2, K::F128x1, K::D, K::A] {
                        let built = mccore::conv::from_nat(k2, *nat, false);
                        if let Ok(v) = built {
                            let r2 = Opd::V(Vo { v, p: Prov::Fresh });
                            let res = guard(|| dispatch::bin(x.v.clone(), op, Form::RefRef, &r2));
                            part.transitions += 1;
                            part.count("native_vs_built_vector", 1);
                            let same = match (&direct, &res) {
                                (Ok(a), Ok(b)) => a.len() == b.len() && a.bits() == b.bits(),
                                (Err(()), Err(())) => true,
                                _ => false,
                            };
                            if !same {
                                let mut v = mk(Form::RefRef, "native_vs_vector_disagree", format!("direct {} gives {}", nat.show(), outcome_str(&direct)), format!("via {}: {}", k2.name(), outcome_str(&res)));
                                v.rhs = format!("{}~{}", nat.ty().name(), k2.name());
                                part.violation(v);
                            }
                        }
                    }
                }
                if !part.has_sample(op.name()) {
                    if let Some((_, Ok(y))) = &reference {
                        part.sample(op.name(), json!({"lhs": root, "rhs": match r { Opd::V(v) => v.show(), Opd::N(n) => n.show() }, "op": op.name(),
                            "forms": ALL_FORMS.iter().map(|f| f.name()).collect::<Vec<_>>(), "all_forms_result": y.bits().to_binstr()}));
                    }
                }
            }
        }
    }
    part.partitions.push(json!({"partition": job.label, "lhs_roots": job.hi - job.lo, "rhs_operands": job.rhs.len(), "complete": true}));
    part
}

/// C20 for the shift operators: six forms (amount by value / by reference, lhs owned / borrowed /
/// in place) must agree.
fn run_shift_forms(part: &mut Part, seen: &Seen, dom: &[Vo]) {
    for x in dom {
        let kind = x.v.kind();
        let m = x.v.bits();
        let xraw = x.v.raw();
        let root = x.show();
        for amt in enumr::amounts_narrowest(m.len(), kind.word()) {
            for left in [true, false] {
                let mut reference: Option<Result<AnyBv, ()>> = None;
                for &form in ALL_FORMS {
                    let mut a = x.v.clone();
                    let res = guard(|| dispatch::shift_mut(&mut a, left, form, &amt));
                    part.transitions += 1;
                    let mk = |what: &str, expected: String, observed: String| Violation {
                        op: if left { "shl".into() } else { "shr".into() },
                        lhs: kind.name().into(),
                        rhs: amt.ty().name().into(),
                        form: form.name().into(),
                        flags: flags(&x.v, &m, &Act::Shift { left, amt, form }),
                        what: what.into(),
                        root: root.clone(),
                        ops: vec![Act::Shift { left, amt, form }.show()],
                        check: "forms".into(),
                        expected,
                        observed,
                    };
                    if matches!(form, Form::RefRef | Form::RefVal) && res.is_ok() && a.raw() != xraw {
                        part.violation(mk("lhs_modified", xraw.hex(), a.raw().hex()));
                    }
                    match &reference {
                        None => reference = Some(res),
                        Some(r0) => {
                            let same = match (r0, &res) {
                                (Ok(a), Ok(b)) => a.len() == b.len() && a.bits() == b.bits(),
                                (Err(()), Err(())) => true,
                                _ => false,
                            };
                            if !same {
                                part.violation(mk("forms_disagree", outcome_str(r0), outcome_str(&res)));
                            } else if let Ok(y) = &res {
                                let yb = y.bits();
                                let mkv = |what: &str, e: String, o: String, _c: &str| mk(what, e, o);
                                check_vector(part, seen, Level::Lite, y, &yb, &mkv, "");
                            }
                        }
                    }
                }
            }
        }
    }
}

pub fn run_forms_plan(cfg: &Cfg, b: usize, lat: bool, lat_rhs: &[K]) -> (Part, Value, bool) {
    let seen = Seen::new();
    let mut part = Part::new();
    part.require("native_vs_built_vector");
    part.require("forms_panicking");
    let mut jobs: Vec<FormsJob> = Vec::new();
    let ops = mccore::dispatch::ALL_BINOPS.to_vec();
    let full_lhs = [K::F8x1, K::F8x2, K::F16x1, K::F64x2, K::D, K::A];
    let full_rhs = [K::F8x1, K::F8x3, K::F16x1, K::F64x2, K::D, K::A];
    let mut doms: BTreeMap<K, Arc<Vec<Vo>>> = BTreeMap::new();
    for &k in full_lhs.iter().chain(full_rhs.iter()) {
        if !doms.contains_key(&k) {
            let provs: &[Prov] = if k == K::D || k == K::A { PROVS_SPARE2 } else { PROVS_PLAIN };
            let mut d = dom_full(&mut part, &seen, k, b.min(4), provs);
            let have: std::collections::HashSet<Raw> = d.iter().map(|x| x.v.raw()).collect();
            d.extend(dom_full(&mut part, &seen, k, b, PROVS_PLAIN).into_iter().filter(|x| !have.contains(&x.v.raw())));
            doms.insert(k, Arc::new(d));
        }
    }
    for &lk in &full_lhs {
        for &rk in &full_rhs {
            let l = doms[&lk].clone();
            let r = Arc::new(to_opds(&doms[&rk]));
            let mut lo = 0;
            while lo < l.len() {
                let hi = (lo + 32).min(l.len());
                jobs.push(FormsJob { label: format!("FULL-{} {}x{} [{}..{}]", b, lk.name(), rk.name(), lo, hi), lhs: l.clone(), lo, hi, rhs: r.clone(), ops: ops.clone() });
                lo = hi;
            }
        }
    }
    let mut lat_doms: BTreeMap<K, Arc<Vec<Vo>>> = BTreeMap::new();
    if lat {
        for &k in ALL_KINDS {
            let provs: &[Prov] = if k == K::D || k == K::A { PROVS_SPARE2 } else { PROVS_PLAIN };
            lat_doms.insert(k, Arc::new(dom_lat(&mut part, &seen, k, &enumr::lat_lengths_short(k), 2, provs)));
        }
        for &lk in ALL_KINDS {
            let mut rks = lat_rhs.to_vec();
            if !rks.contains(&lk) {
                rks.push(lk);
            }
            for rk in rks {
                let l = lat_doms[&lk].clone();
                // every third lattice value as right operand keeps the pair count linear-ish
                let r = Arc::new(to_opds(&lat_doms[&rk].iter().step_by(3).cloned().collect::<Vec<_>>()));
                let mut lo = 0;
                while lo < l.len() {
                    let hi = (lo + 16).min(l.len());
                    jobs.push(FormsJob { label: format!("LAT {}x{} [{}..{}]", lk.name(), rk.name(), lo, hi), lhs: l.clone(), lo, hi, rhs: r.clone(), ops: ops.clone() });
                    lo = hi;
                }
            }
        }
    }
    // natives against every kind
    for &lk in ALL_KINDS {
        let l: Arc<Vec<Vo>> = match lat_doms.get(&lk) {
            Some(d) => d.clone(),
            None => Arc::new(dom_lat(&mut part, &seen, lk, &enumr::lat_lengths_short(lk), 2, PROVS_PLAIN)),
        };
        for &ty in ALL_NAT {
            let r: Arc<Vec<Opd>> = Arc::new(enumr::ul(ty).into_iter().step_by(2).map(Opd::N).collect());
            let mut lo = 0;
            while lo < l.len() {
                let hi = (lo + 32).min(l.len());
                jobs.push(FormsJob { label: format!("NAT {}x{} [{}..{}]", lk.name(), ty.name(), lo, hi), lhs: l.clone(), lo, hi, rhs: r.clone(), ops: ops.clone() });
                lo = hi;
            }
        }
    }
    let njobs = jobs.len();
    let capped = std::sync::atomic::AtomicUsize::new(0);
    let done = jobs
        .par_iter()
        .map(|j| {
            if cfg.out_of_time() {
                capped.fetch_add(1, std::sync::atomic::Ordering::Relaxed);
                let mut p = Part::new();
                p.partitions.push(json!({"partition": j.label, "complete": false, "reason": "wall-clock cap"}));
                return p;
            }
            run_forms_job(cfg, &seen, j)
        })
        .reduce(Part::new, Part::merge);
    let mut part = part.merge(done);
    // shifts
    let shift_parts: Vec<Part> = ALL_KINDS
        .par_iter()
        .map(|&k| {
            let mut p = Part::new();
            let provs: &[Prov] = if k == K::D || k == K::A { PROVS_SPARE2 } else { PROVS_PLAIN };
            let mut d = dom_lat(&mut p, &seen, k, &enumr::lat_lengths_short(k), 2, provs);
            if k.word() == 8 || k == K::D || k == K::A {
                d.extend(dom_full(&mut p, &seen, k, b.min(6), PROVS_PLAIN));
            }
            run_shift_forms(&mut p, &seen, &d);
            p.partitions.push(json!({"partition": format!("SHIFT-FORMS {}", k.name()), "lhs_roots": d.len(), "complete": true}));
            p
        })
        .collect();
    for p in shift_parts {
        part = part.merge(p);
    }
    let ncapped = capped.load(std::sync::atomic::Ordering::Relaxed);
    if ncapped > 0 {
        part.caps_hit.push(format!("wall-clock cap: {} of {} partitions not run", ncapped, njobs));
    }
    (part, json!({"full_bound_bits": b, "full_lhs": full_lhs.iter().map(|k| k.name()).collect::<Vec<_>>(), "full_rhs": full_rhs.iter().map(|k| k.name()).collect::<Vec<_>>(),
        "lattice": lat, "ops": "+ - * / % & | ^ (6 forms each), << >> (6 forms each)", "oracle": "differential: all forms must agree with each other; operands re-read after each call", "partitions": njobs}), true)
}

/// Replay of a `forms` violation: one left operand, one operator application, all forms.
pub fn replay_forms(cfg: &Cfg, root: &str, ops: &[String]) -> Result<Part, String> {
    let x = Vo::parse(root).ok_or_else(|| format!("cannot parse root {}", root))?;
    let a = ops.first().and_then(|o| Act::parse(o)).ok_or_else(|| "cannot parse op".to_string())?;
    let seen = Seen::new();
    match a {
        Act::Bin { op, rhs, .. } => {
            let job = FormsJob { label: "replay".into(), lhs: Arc::new(vec![x]), lo: 0, hi: 1, rhs: Arc::new(vec![rhs]), ops: vec![op] };
            Ok(run_forms_job(cfg, &seen, &job))
        }
        Act::Shift { .. } => {
            let mut p = Part::new();
            run_shift_forms(&mut p, &seen, &[x]);
            Ok(p)
        }
        _ => Err("forms replay needs a bin or shift op".into()),
    }
}
