//! Observer battery (C03's own formulation): every public observer applied to a vector `x` must
//! answer exactly what it answers on a freshly constructed vector (`zeros(n)` + `set`) of the same
//! kind holding the same bits, and a few follow-up operations (growing, using `x` as a right-hand
//! operand, shifting, slicing) must give the same result from both. The battery is *differential*:
//! an observer that is wrong on every vector is the business of the property that owns that
//! observer (C08-C16 check them absolutely against the model); the battery only decides whether
//! `x` carries hidden state. Verdicts only ever come from public observers, never from raw storage.

use mccore::act::{apply, guard, Act};
use mccore::bits::Bits;
use mccore::conv;
use mccore::dispatch::{self, BinOp, CmpObs, Form};
use mccore::kinds::*;
use mccore::on_any;
use bva::{Bit, BitVector, Endianness};
use std::hash::{Hash, Hasher};

#[derive(Clone, Copy, PartialEq, Eq, Debug)]
pub enum Level {
    Lite,
    Full,
}

#[derive(Clone, Debug)]
pub struct Finding {
    pub observer: String,
    pub expected: String,
    pub observed: String,
}

/// A Hasher that records the exact sequence of calls it receives.
#[derive(Default, Clone, PartialEq, Eq, Debug)]
pub struct RecHasher(pub Vec<u8>);
impl Hasher for RecHasher {
    fn finish(&self) -> u64 {
        0
    }
    fn write(&mut self, bytes: &[u8]) {
        self.0.push(0xF0);
        self.0.extend_from_slice(&(bytes.len() as u32).to_le_bytes());
        self.0.extend_from_slice(bytes);
    }
    fn write_u8(&mut self, i: u8) {
        self.0.push(0x01);
        self.0.push(i);
    }
    fn write_u16(&mut self, i: u16) {
        self.0.push(0x02);
        self.0.extend_from_slice(&i.to_le_bytes());
    }
    fn write_u32(&mut self, i: u32) {
        self.0.push(0x04);
        self.0.extend_from_slice(&i.to_le_bytes());
    }
    fn write_u64(&mut self, i: u64) {
        self.0.push(0x08);
        self.0.extend_from_slice(&i.to_le_bytes());
    }
    fn write_u128(&mut self, i: u128) {
        self.0.push(0x10);
        self.0.extend_from_slice(&i.to_le_bytes());
    }
    fn write_usize(&mut self, i: usize) {
        self.0.push(0x09);
        self.0.extend_from_slice(&i.to_le_bytes());
    }
}

pub fn hash_stream<T: Hash>(x: &T) -> Vec<u8> {
    let mut h = RecHasher::default();
    x.hash(&mut h);
    h.0
}

pub fn hash_stream_any(x: &AnyBv) -> Vec<u8> {
    on_any!(x, x => hash_stream(x))
}

pub fn default_hash_any(x: &AnyBv) -> u64 {
    on_any!(x, x => {
        let mut h = std::collections::hash_map::DefaultHasher::new();
        x.hash(&mut h);
        h.finish()
    })
}

/// value wrapper that formats an externally supplied digit string through `pad_integral`, i.e.
/// exactly as std pads an unsigned integer (used as the formatting oracle above 128 bits)
pub struct OracleNum {
    pub dec: String,
    pub bin: String,
    pub oct: String,
    pub hex: String,
    pub hex_upper: String,
}
impl OracleNum {
    pub fn of(m: &Bits) -> OracleNum {
        OracleNum {
            dec: m.digits_dec(),
            bin: m.digits_pow2(1, false),
            oct: m.digits_pow2(3, false),
            hex: m.digits_pow2(4, false),
            hex_upper: m.digits_pow2(4, true),
        }
    }
}
impl std::fmt::Display for OracleNum {
    fn fmt(&self, f: &mut std::fmt::Formatter<'_>) -> std::fmt::Result {
        f.pad_integral(true, "", &self.dec)
    }
}
impl std::fmt::Binary for OracleNum {
    fn fmt(&self, f: &mut std::fmt::Formatter<'_>) -> std::fmt::Result {
        f.pad_integral(true, "0b", &self.bin)
    }
}
impl std::fmt::Octal for OracleNum {
    fn fmt(&self, f: &mut std::fmt::Formatter<'_>) -> std::fmt::Result {
        f.pad_integral(true, "0o", &self.oct)
    }
}
impl std::fmt::LowerHex for OracleNum {
    fn fmt(&self, f: &mut std::fmt::Formatter<'_>) -> std::fmt::Result {
        f.pad_integral(true, "0x", &self.hex)
    }
}
impl std::fmt::UpperHex for OracleNum {
    fn fmt(&self, f: &mut std::fmt::Formatter<'_>) -> std::fmt::Result {
        f.pad_integral(true, "0x", &self.hex_upper)
    }
}

/// basic format outputs: {} {:b} {:o} {:x} {:X} plain and with '#'
macro_rules! basic_formats {
    ($v:expr) => {
        vec![
            format!("{}", $v),
            format!("{:b}", $v),
            format!("{:o}", $v),
            format!("{:x}", $v),
            format!("{:X}", $v),
            format!("{:#b}", $v),
            format!("{:#o}", $v),
            format!("{:#x}", $v),
            format!("{:#X}", $v),
        ]
    };
}
pub const BASIC_FORMAT_NAMES: [&str; 9] = ["{}", "{:b}", "{:o}", "{:x}", "{:X}", "{:#b}", "{:#o}", "{:#x}", "{:#X}"];

pub fn expected_basic_formats(m: &Bits) -> Vec<String> {
    match m.to_u128() {
        Some(v) => basic_formats!(v),
        None => {
            let o = OracleNum::of(m);
            basic_formats!(o)
        }
    }
}


type ObsList = Vec<(String, String)>;

fn rec<V: std::fmt::Debug>(out: &mut ObsList, name: &str, f: impl FnOnce() -> V) {
    let v = match guard(f) {
        Ok(v) => format!("{:?}", v),
        Err(()) => "<panicked>".to_string(),
    };
    out.push((name.to_string(), v));
}

fn observe_t<T: Subj>(x: &T, level: Level, out: &mut ObsList) {
    let n = x.len();
    rec(out, "len", || x.len());
    rec(out, "is_empty", || x.is_empty());
    rec(out, "get", || (0..n).map(|i| if x.get(i) == Bit::One { '1' } else { '0' }).collect::<String>());
    rec(out, "is_zero", || x.is_zero());
    rec(out, "to_vec(LE)", || x.to_vec(Endianness::Little));
    rec(out, "leading_zeros", || x.leading_zeros());
    rec(out, "leading_ones", || x.leading_ones());
    rec(out, "trailing_zeros", || x.trailing_zeros());
    rec(out, "trailing_ones", || x.trailing_ones());
    rec(out, "significant_bits", || x.significant_bits());
    rec(out, "hash_stream", || hash_stream(x));
    rec(out, "{:x}", || format!("{:x}", x));
    if level == Level::Lite {
        return;
    }
    rec(out, "first", || x.first().map(bit2b));
    rec(out, "last", || x.last().map(bit2b));
    rec(out, "iter", || x.iter().map(bit2b).collect::<Vec<bool>>());
    rec(out, "iter.rev", || x.iter().rev().map(bit2b).collect::<Vec<bool>>());
    rec(out, "to_vec(BE)", || x.to_vec(Endianness::Big));
    rec(out, "write(LE)", || {
        let mut w = Vec::new();
        let r = x.write(&mut w, Endianness::Little).is_ok();
        (r, w)
    });
    rec(out, "write(BE)", || {
        let mut w = Vec::new();
        let r = x.write(&mut w, Endianness::Big).is_ok();
        (r, w)
    });
    rec(out, "formats", || basic_formats!(x));
}

fn cmp_str(c: CmpObs) -> String {
    format!("{:?}", c)
}

fn observe_any(x: &AnyBv, m: &Bits, level: Level, out: &mut ObsList) {
    let kind = x.kind();
    on_any!(x, y => observe_t(y, level, out));
    // comparisons against reference vectors (fresh ones of several kinds, numeric neighbours)
    let f = fresh(kind, m);
    rec(out, "x<=>fresh", || cmp_str(dispatch::compare(x, &f)));
    rec(out, "fresh<=>x", || cmp_str(dispatch::compare(&f, x)));
    rec(out, "Ord::cmp(x,fresh)", || dispatch::ord_cmp(x, &f));
    rec(out, "Ord::cmp(fresh,x)", || dispatch::ord_cmp(&f, x));
    let d = fresh(K::D, m);
    rec(out, "x<=>freshD", || cmp_str(dispatch::compare(x, &d)));
    rec(out, "freshD<=>x", || cmp_str(dispatch::compare(&d, x)));
    rec(out, "capacity>=len", || x.capacity() >= x.len());
    // probes: follow-up operations whose result must not depend on how x was produced
    let n = m.len();
    let w = kind.word();
    let target = match kind.cap() {
        Some(c) => c,
        None => n + 130,
    };
    let bits_of = |y: AnyBv| y.bits().to_binstr();
    if target > n {
        rec(out, "probe:resize(max,0)", || bits_of(apply(x.clone(), &Act::Resize(target, false)).0));
        rec(out, "probe:resize(+1,0);resize(+w,0)", || {
            let t2 = n + 1;
            let (y, _) = apply(x.clone(), &Act::Resize(t2, false));
            bits_of(apply(y, &Act::Resize(target.min(t2 + w), false)).0)
        });
        rec(out, "probe:push(1)", || bits_of(apply(x.clone(), &Act::Push(true)).0));
    }
    let wide = match kind.cap() {
        Some(c) => c,
        None => n + 70,
    };
    let rhs = Opd::V(Vo { v: x.clone(), p: Prov::Fresh });
    rec(out, "probe:zeros+=&x", || bits_of(dispatch::bin(fresh(kind, &Bits::zeros(wide)), BinOp::Add, Form::AsgRef, &rhs)));
    rec(out, "probe:zeros|&x", || bits_of(dispatch::bin(fresh(kind, &Bits::zeros(wide)), BinOp::Or, Form::RefRef, &rhs)));
    if wide > 0 {
        rec(out, "probe:one*&x", || bits_of(dispatch::bin(fresh(kind, &Bits::from_u128(wide, 1)), BinOp::Mul, Form::RefRef, &rhs)));
    }
    if level == Level::Lite {
        return;
    }
    let a = fresh(K::A, m);
    rec(out, "x<=>freshA", || cmp_str(dispatch::compare(x, &a)));
    rec(out, "freshA<=>x", || cmp_str(dispatch::compare(&a, x)));
    if !m.is_zero() {
        let p = fresh(kind, &m.sub(&Bits::from_u128(1, 1)));
        rec(out, "x<=>fresh(v-1)", || cmp_str(dispatch::compare(x, &p)));
        rec(out, "fresh(v-1)<=>x", || cmp_str(dispatch::compare(&p, x)));
    }
    if m.0.iter().any(|b| !*b) {
        let p = fresh(kind, &m.add(&Bits::from_u128(1, 1)));
        rec(out, "x<=>fresh(v+1)", || cmp_str(dispatch::compare(x, &p)));
        rec(out, "fresh(v+1)<=>x", || cmp_str(dispatch::compare(&p, x)));
    }
    for ty in ALL_NAT {
        rec(out, &format!("{}::try_from(&x)", ty.name()), || conv::to_nat(x, *ty, false));
    }
    for t in [K::D, K::A, K::F64x4, K::F8x3] {
        rec(out, &format!("convert->{}", t.name()), || {
            conv::convert(x, t, false).map(|y| {
                let b = y.bits().to_binstr();
                let z = on_any!(&y, y => (y.is_zero(), y.to_vec(Endianness::Little)));
                (b, z)
            })
        });
    }
    // more follow-up operations
    rec(out, "probe:x+1", || bits_of(dispatch::bin(x.clone(), BinOp::Add, Form::ValVal, &Opd::N(Nat::U8(1)))));
    rec(out, "probe:x*3", || bits_of(dispatch::bin(x.clone(), BinOp::Mul, Form::RefVal, &Opd::N(Nat::U8(3)))));
    rec(out, "probe:!x", || bits_of(dispatch::not(x.clone(), true)));
    rec(out, "probe:x>>1", || bits_of(dispatch::shift(x.clone(), false, Form::ValVal, &Nat::U8(1))));
    rec(out, "probe:x<<1", || bits_of(dispatch::shift(x.clone(), true, Form::RefVal, &Nat::U8(1))));
    if n > 0 {
        rec(out, "probe:rotl(1)", || bits_of(apply(x.clone(), &Act::Rotl(1)).0));
        rec(out, "probe:rotr(1)", || bits_of(apply(x.clone(), &Act::Rotr(1)).0));
        rec(out, "probe:copy_range(1..n)", || bits_of(apply(x.clone(), &Act::TakeRange(1, n)).0));
    }
    rec(out, "probe:shl_in(1)", || bits_of(apply(x.clone(), &Act::ShlIn(true)).0));
    rec(out, "probe:shr_in(1)", || bits_of(apply(x.clone(), &Act::ShrIn(true)).0));
    if target > n {
        rec(out, "probe:sign_extend(max)", || bits_of(apply(x.clone(), &Act::SignExtend(target)).0));
        let sfx = Vo { v: fresh(K::F8x1, &Bits::from_u128(3, 0b101)), p: Prov::Fresh };
        if target >= n + 3 {
            rec(out, "probe:append(101)", || bits_of(apply(x.clone(), &Act::Append(sfx.clone())).0));
            rec(out, "probe:prepend(101)", || bits_of(apply(x.clone(), &Act::Prepend(sfx.clone())).0));
        }
    }
    rec(out, "probe:x/7", || guard_bits(|| dispatch::bin(x.clone(), BinOp::Div, Form::RefVal, &Opd::N(Nat::U8(7)))));
    rec(out, "probe:x%7", || guard_bits(|| dispatch::bin(x.clone(), BinOp::Rem, Form::RefVal, &Opd::N(Nat::U8(7)))));
}

fn guard_bits(f: impl FnOnce() -> AnyBv) -> String {
    f().bits().to_binstr()
}

/// Differential battery: everything observed on `x` must equal what is observed on the freshly
/// constructed vector of the same kind with bits `m`. Never panics.
pub fn battery(x: &AnyBv, m: &Bits, level: Level) -> Vec<Finding> {
    let f = fresh(x.kind(), m);
    let mut ox = Vec::new();
    let mut of = Vec::new();
    observe_any(x, m, level, &mut ox);
    observe_any(&f, m, level, &mut of);
    let mut out = Vec::new();
    for (a, b) in ox.iter().zip(of.iter()) {
        debug_assert_eq!(a.0, b.0);
        if a.1 != b.1 {
            out.push(Finding { observer: a.0.clone(), expected: b.1.clone(), observed: a.1.clone() });
        }
    }
    if ox.len() != of.len() {
        out.push(Finding { observer: "battery-shape".into(), expected: format!("{}", of.len()), observed: format!("{}", ox.len()) });
    }
    out
}

/// number of observers / probes the battery evaluates at this level for a non-empty growable vector
pub fn battery_size(level: Level) -> usize {
    let m = Bits::from_u128(5, 0b10110);
    let x = fresh(K::D, &m);
    let mut o = Vec::new();
    observe_any(&x, &m, level, &mut o);
    o.len()
}
