//! Enumerators: FULL(n) = all 2^n patterns; LAT = the finite boundary lattice of DESIGN 3.4.

use mccore::bits::Bits;
use mccore::kinds::*;
use std::collections::BTreeSet;

/// all 2^n bit patterns of length n (n <= 30)
pub fn full(n: usize) -> impl Iterator<Item = Bits> {
    assert!(n <= 30);
    (0u128..(1u128 << n)).map(move |v| Bits::from_u128(n, v))
}

/// every (len, value) with len in 0..=b
pub fn full_upto(b: usize) -> Vec<Bits> {
    let mut v = Vec::new();
    for n in 0..=b {
        v.extend(full(n));
    }
    v
}

/// boundary index set T for length l and word size w: {0,1,2, kw-1,kw,kw+1, l-2,l-1} within [0,l]
pub fn boundary_indices(l: usize, w: usize) -> Vec<usize> {
    let mut t = BTreeSet::new();
    for i in [0usize, 1, 2] {
        t.insert(i);
    }
    let mut k = 1;
    while k * w <= l + 1 {
        for d in [k * w - 1, k * w, k * w + 1] {
            t.insert(d);
        }
        k += 1;
    }
    if w != 8 {
        // byte boundaries matter too (append/prepend/to_vec work on bytes): first and last byte edge
        for d in [7usize, 8, 9] {
            t.insert(d);
        }
    }
    for d in [l.saturating_sub(2), l.saturating_sub(1), l] {
        t.insert(d);
    }
    t.into_iter().filter(|i| *i <= l).collect()
}

fn filler(l: usize, byte: u8) -> Bits {
    Bits((0..l).map(|i| (byte >> (i % 8)) & 1 == 1).collect())
}

/// Boundary lattice of values for length l, word size w, at most `runs` maximal runs.
pub fn lat(l: usize, w: usize, runs: usize) -> Vec<Bits> {
    let mut set: BTreeSet<Vec<bool>> = BTreeSet::new();
    if l == 0 {
        return vec![Bits::new()];
    }
    let t: Vec<usize> = boundary_indices(l, w).into_iter().filter(|i| *i > 0 && *i < l).collect();
    // patterns with at most `runs` runs whose boundaries are in T
    for pol in [false, true] {
        set.insert(vec![pol; l]);
        if runs >= 2 {
            for &b1 in &t {
                let v: Vec<bool> = (0..l).map(|i| (i >= b1) ^ pol).collect();
                set.insert(v);
                if runs >= 3 {
                    for &b2 in t.iter().filter(|b| **b > b1) {
                        let v: Vec<bool> = (0..l).map(|i| ((i >= b1) ^ (i >= b2)) ^ pol).collect();
                        set.insert(v);
                    }
                }
            }
        }
    }
    // single set / cleared bits at each boundary index
    for &b in boundary_indices(l, w).iter().filter(|i| **i < l) {
        set.insert((0..l).map(|i| i == b).collect());
        set.insert((0..l).map(|i| i != b).collect());
    }
    // small constants and their complements
    for c in [0u128, 1, 2, 3, 10] {
        set.insert(Bits::from_u128(l, c).0);
        set.insert(Bits::from_u128(l, c).not().0);
    }
    for f in [0xA5u8, 0x5A, 0x0F] {
        set.insert(filler(l, f).0);
    }
    set.into_iter().map(Bits).collect()
}

/// lattice lengths for a kind
pub fn lat_lengths(kind: K) -> Vec<usize> {
    let mut s = BTreeSet::new();
    match kind.cap() {
        Some(c) => {
            let w = kind.word();
            for l in [0, 1, w - 1, w, w + 1, 2 * w - 1, 2 * w, 2 * w + 1, c.saturating_sub(w) + 1, c - 1, c] {
                if l <= c {
                    s.insert(l);
                }
            }
        }
        None => {
            for l in [0usize, 1, 63, 64, 65, 127, 128, 129, 191, 192, 193, 256, 257] {
                s.insert(l);
            }
        }
    }
    s.into_iter().collect()
}

/// shorter list of lattice lengths (quick tiers)
pub fn lat_lengths_short(kind: K) -> Vec<usize> {
    match kind.cap() {
        Some(c) => {
            let w = kind.word();
            let mut s = BTreeSet::new();
            for l in [0, 1, w - 1, w, w + 1, c - 1, c] {
                if l <= c {
                    s.insert(l);
                }
            }
            s.into_iter().collect()
        }
        None => vec![0, 1, 63, 64, 65, 127, 128, 129, 193, 257],
    }
}

/// native integer lattice UL(T)
pub fn ul(ty: NatTy) -> Vec<Nat> {
    let mut s: BTreeSet<u128> = BTreeSet::new();
    for c in [0u128, 1, 2, 3, 10] {
        s.insert(c);
    }
    for k in [4u32, 7, 8, 15, 16, 31, 32, 63, 64, 127] {
        let p = 1u128 << k;
        s.insert(p - 1);
        s.insert(p);
        s.insert(p + 1);
    }
    s.insert(0xA5A5_A5A5_A5A5_A5A5_A5A5_A5A5_A5A5_A5A5);
    s.insert(0x5A5A_5A5A_5A5A_5A5A_5A5A_5A5A_5A5A_5A5A);
    s.insert(0x0F0F_0F0F_0F0F_0F0F_0F0F_0F0F_0F0F_0F0F);
    s.insert(0xFFFF_FFFF_0000_0000_FFFF_FFFF_0000_0000);
    let mut out: BTreeSet<u128> = BTreeSet::new();
    let max = ty.max();
    for v in s {
        out.insert(v & max);
    }
    out.insert(max);
    out.insert(max - 1);
    out.insert(max >> 1);
    out.insert((max >> 1) + 1);
    out.into_iter().filter_map(|v| ty.make(v)).collect()
}

/// every value of a narrow type (u8: 256, u16: 65536)
pub fn all_of(ty: NatTy) -> Vec<Nat> {
    assert!(ty.bits() <= 16);
    (0..=ty.max()).filter_map(|v| ty.make(v)).collect()
}

/// shift / index amounts for a vector of length n and word size w, as raw values
pub fn amounts(n: usize, w: usize) -> Vec<u128> {
    let mut s: BTreeSet<u128> = BTreeSet::new();
    for k in 0..=(n + 2).min(40) {
        s.insert(k as u128);
    }
    for k in [n.saturating_sub(1), n, n + 1, n + 2] {
        s.insert(k as u128);
    }
    let mut k = 1;
    while k * w <= n + w {
        for d in [k * w - 1, k * w, k * w + 1] {
            s.insert(d as u128);
        }
        k += 1;
    }
    for v in [
        255u128,
        256,
        65535,
        65536,
        (1 << 32) - 1,
        1 << 32,
        (1 << 63),
        u64::MAX as u128,
        1 << 64,
        (1 << 64) + 1,
        (1 << 64) + 3,
        1 << 127,
        u128::MAX,
    ] {
        s.insert(v);
    }
    s.into_iter().collect()
}

/// each raw amount in every native type that can hold it
pub fn amounts_typed(n: usize, w: usize) -> Vec<Nat> {
    let mut out = Vec::new();
    for v in amounts(n, w) {
        for ty in ALL_NAT {
            if let Some(x) = ty.make(v) {
                out.push(x);
            }
        }
    }
    out
}

/// smaller typed amount set: every raw amount once in the narrowest type holding it, plus each
/// type's maximum
pub fn amounts_narrowest(n: usize, w: usize) -> Vec<Nat> {
    let mut out = Vec::new();
    for v in amounts(n, w) {
        for ty in ALL_NAT {
            if let Some(x) = ty.make(v) {
                out.push(x);
                break;
            }
        }
    }
    for ty in ALL_NAT {
        out.push(ty.make(ty.max()).unwrap());
    }
    out
}

/// Word lattice: every storage word independently takes each of a few boundary values
/// (0, 1, MAX, MAX-1, top bit only, all but the top bit), truncated to length l. Covers carry /
/// borrow / partial-product chains through every combination of "absorbing", "propagating" and
/// "generating" words. `rich` = six values per word (up to 4 words), otherwise {0, 1, MAX}.
pub fn wordlat(l: usize, w: usize, rich: bool) -> Vec<Bits> {
    if l == 0 {
        return vec![Bits::new()];
    }
    let nw = (l + w - 1) / w;
    let pats: Vec<Vec<bool>> = {
        let zero = vec![false; w];
        let one: Vec<bool> = (0..w).map(|i| i == 0).collect();
        let max = vec![true; w];
        let maxm1: Vec<bool> = (0..w).map(|i| i != 0).collect();
        let top: Vec<bool> = (0..w).map(|i| i + 1 == w).collect();
        let ntop: Vec<bool> = (0..w).map(|i| i + 1 != w).collect();
        if rich && nw <= 4 {
            vec![zero, one, max, maxm1, top, ntop]
        } else if nw <= 6 {
            vec![zero, one, max]
        } else {
            vec![zero, max]
        }
    };
    let mut out: BTreeSet<Vec<bool>> = BTreeSet::new();
    let mut idx = vec![0usize; nw];
    loop {
        let mut v: Vec<bool> = Vec::with_capacity(nw * w);
        for k in 0..nw {
            v.extend_from_slice(&pats[idx[k]]);
        }
        v.truncate(l);
        out.insert(v);
        // next combination
        let mut k = 0;
        loop {
            if k == nw {
                return out.into_iter().map(Bits).collect();
            }
            idx[k] += 1;
            if idx[k] < pats.len() {
                break;
            }
            idx[k] = 0;
            k += 1;
        }
    }
}
