//! Property routing: which engine and which bounds decide each property, per tier.

use crate::arith::{self, BinPlan};
use crate::common::*;
use crate::report::Part;
use mccore::dispatch::{BinOp, Form, ALL_FORMS};
use mccore::kinds::*;
use serde_json::Value;
use std::time::Instant;

const S8: &[K] = &[K::F8x1, K::F8x2, K::F8x3];

fn c01_plan(cfg: &Cfg) -> BinPlan {
    let q = cfg.quick();
    BinPlan {
        ops: vec![BinOp::Add, BinOp::Sub, BinOp::Mul],
        forms: vec![Form::RefRef, Form::AsgRef],
        div_rem: false,
        full_lhs: vec![K::F8x1, K::F8x2, K::F8x3, K::F16x1, K::D, K::A],
        full_rhs: vec![K::F8x1, K::F8x2, K::F8x3, K::F16x1, K::F64x2, K::D, K::A],
        full_b: if q { 5 } else { 8 },
        deep: if q { vec![(K::F8x2, K::F8x2, 7)] } else { vec![(K::F8x2, K::F8x2, 10), (K::F8x2, K::F8x3, 10), (K::F8x3, K::D, 10), (K::F8x2, K::D, 10)] },
        lat_lhs: ALL_KINDS.to_vec(),
        lat_rhs_classes: if q { vec![K::F8x3, K::F64x2, K::F128x2, K::D, K::A] } else { ALL_KINDS.to_vec() },
        lat_same_kind: true,
        lat_runs: if q { 2 } else { 3 },
        lat_short: q,
        nat_complete_u8: true,
        nat_complete_u16: !q,
        nat_full_b: if q { 4 } else { 6 },
    }
}

pub fn run(cfg: &Cfg) -> Option<(Part, Value, bool)> {
    match cfg.prop.as_str() {
        "C01" => Some(arith::run_bin_plan(cfg, &c01_plan(cfg))),
        _ => None,
    }
}

/// Replay one violation artefact. Exit code: 1 if the violation reproduces, 0 if the property
/// holds on this input, 2 on a malformed file.
pub fn replay(j: &Value, profile: &'static str, dbg: bool) -> i32 {
    let cfg = Cfg { prop: j["property"].as_str().unwrap_or("?").to_string(), tier: Tier::Quick, profile, dbg, budget_s: 600.0, start: Instant::now() };
    let root = j["root"].as_str().unwrap_or("");
    let ops: Vec<String> = j["ops"].as_array().map(|a| a.iter().filter_map(|v| v.as_str().map(|s| s.to_string())).collect()).unwrap_or_default();
    let check = j["check"].as_str().unwrap_or("state");
    println!("replay property={} profile={} root={} check={}", cfg.prop, profile, root, check);
    let part = if check == "state" || check == "battery" {
        match replay_ops(&cfg, root, &ops) {
            Ok(p) => p,
            Err(e) => {
                eprintln!("{}", e);
                return 2;
            }
        }
    } else {
        eprintln!("unknown check {}", check);
        return 2;
    };
    if part.classes.is_empty() {
        println!("replay: no violation on this tree (recorded: expected {} / observed {})", j["expected"], j["observed"]);
        0
    } else {
        for (k, c) in &part.classes {
            println!("replay: VIOLATION class={} expected={} observed={}", k, c.first.expected, c.first.observed);
        }
        1
    }
}

#[allow(dead_code)]
fn unused() {
    let _ = (S8, ALL_FORMS);
}
