//! Property routing: which engine and which bounds decide each property, per tier.

use crate::arith::{self, BinPlan, UnaryAlphabet, UnaryPlan};
use crate::common::*;
use crate::report::Part;
use mccore::dispatch::{BinOp, Form, ALL_FORMS};
use mccore::kinds::*;
use serde_json::Value;
use std::time::Instant;

const S8: &[K] = &[K::F8x1, K::F8x2, K::F8x3];

fn c01_plan(cfg: &Cfg) -> BinPlan {
    let q = cfg.quick();
    BinPlan {
        ops: vec![BinOp::Add, BinOp::Sub, BinOp::Mul],
        forms: vec![Form::RefRef, Form::AsgRef],
        div_rem: false,
        full_lhs: vec![K::F8x1, K::F8x2, K::F8x3, K::F16x1, K::D, K::A],
        full_rhs: vec![K::F8x1, K::F8x2, K::F8x3, K::F16x1, K::F64x2, K::D, K::A],
        full_b: if q { 5 } else { 8 },
        deep: if q { vec![(K::F8x2, K::F8x2, 7)] } else { vec![(K::F8x2, K::F8x2, 11), (K::F8x2, K::F8x3, 11), (K::F8x3, K::D, 10), (K::F8x2, K::D, 10), (K::D, K::F8x2, 10), (K::A, K::A, 10), (K::F16x1, K::F8x3, 10)] },
        lat_lhs: ALL_KINDS.to_vec(),
        lat_rhs_classes: if q { vec![K::F8x3, K::F64x2, K::F128x2, K::D, K::A] } else { ALL_KINDS.to_vec() },
        lat_same_kind: true,
        lat_runs: if q { 2 } else { 3 },
        lat_short: q,
        nat_complete_u8: true,
        nat_complete_u16: !q,
        nat_full_b: if q { 4 } else { 6 },
        wordlat: true,
    }
}

fn c02_plan(cfg: &Cfg) -> BinPlan {
    let q = cfg.quick();
    BinPlan {
        ops: vec![BinOp::Div, BinOp::Rem],
        forms: vec![Form::RefRef, Form::AsgRef],
        div_rem: true,
        full_lhs: vec![K::F8x1, K::F8x2, K::F8x3, K::F16x1, K::D, K::A],
        full_rhs: vec![K::F8x1, K::F8x2, K::F8x3, K::F16x1, K::F64x2, K::D, K::A],
        full_b: if q { 5 } else { 7 },
        deep: if q { vec![(K::F8x2, K::F8x2, 6)] } else { vec![(K::F8x2, K::F8x2, 10), (K::F8x2, K::F8x3, 10), (K::F8x2, K::D, 9), (K::D, K::F8x2, 9), (K::A, K::D, 9), (K::F8x3, K::F16x1, 9)] },
        lat_lhs: ALL_KINDS.to_vec(),
        lat_rhs_classes: if q { vec![K::F8x3, K::F64x2, K::F128x2, K::D, K::A] } else { ALL_KINDS.to_vec() },
        lat_same_kind: true,
        lat_runs: 2,
        lat_short: q,
        nat_complete_u8: true,
        nat_complete_u16: false,
        nat_full_b: if q { 4 } else { 6 },
        wordlat: true,
    }
}

fn c04_plan(cfg: &Cfg) -> BinPlan {
    let q = cfg.quick();
    BinPlan {
        ops: vec![BinOp::And, BinOp::Or, BinOp::Xor],
        forms: vec![Form::RefRef, Form::AsgRef],
        div_rem: false,
        full_lhs: vec![K::F8x1, K::F8x2, K::F8x3, K::F16x1, K::D, K::A],
        full_rhs: vec![K::F8x1, K::F8x2, K::F8x3, K::F16x1, K::F64x2, K::D, K::A],
        full_b: if q { 5 } else { 8 },
        deep: if q { vec![(K::F8x2, K::F8x3, 7)] } else { vec![(K::F8x2, K::F8x2, 11), (K::F8x2, K::F8x3, 11), (K::F8x2, K::D, 10), (K::D, K::F8x3, 10), (K::A, K::F16x1, 10)] },
        lat_lhs: ALL_KINDS.to_vec(),
        lat_rhs_classes: if q { vec![K::F8x3, K::F64x2, K::F128x2, K::D, K::A] } else { ALL_KINDS.to_vec() },
        lat_same_kind: true,
        lat_runs: if q { 2 } else { 3 },
        lat_short: q,
        nat_complete_u8: true,
        nat_complete_u16: !q,
        nat_full_b: if q { 4 } else { 6 },
        wordlat: true,
    }
}

fn merge3(a: (Part, Value, bool), b: (Part, Value, bool)) -> (Part, Value, bool) {
    (a.0.merge(b.0), serde_json::json!([a.1, b.1]), a.2 && b.2)
}

fn c04_not(cfg: &Cfg) -> UnaryPlan {
    let q = cfg.quick();
    UnaryPlan {
        full: vec![(vec![K::F8x1, K::F8x2, K::F16x1, K::D, K::A], if q { 10 } else { 16 }, UnaryAlphabet::Not), (vec![K::F8x3], if q { 10 } else { 20 }, UnaryAlphabet::Not)],
        lat: vec![(ALL_KINDS.to_vec(), 3, UnaryAlphabet::Not)],
        lat_short: q,
        required: vec![],
    }
}

fn c05_plan(cfg: &Cfg) -> UnaryPlan {
    let q = cfg.quick();
    let f6 = ALL_FORMS.to_vec();
    let f3 = vec![Form::ValVal, Form::AsgRef, Form::RefRef];
    let mut full = vec![
        (vec![K::F8x1, K::F8x2, K::F8x3], if q { 8 } else { 12 }, UnaryAlphabet::Shifts { forms: f6.clone(), all_types: true }),
        (vec![K::D, K::A, K::F16x1], if q { 6 } else { 9 }, UnaryAlphabet::Shifts { forms: f6.clone(), all_types: true }),
        (vec![K::F8x1, K::F8x2, K::F8x3], 8, UnaryAlphabet::ShiftsComplete { ty: NatTy::U8, forms: vec![Form::ValVal, Form::AsgVal] }),
        (vec![K::F8x1, K::F8x2, K::F8x3, K::D, K::A], if q { 3 } else { 6 }, UnaryAlphabet::ShiftsComplete { ty: NatTy::U16, forms: vec![Form::AsgVal] }),
        (vec![K::F8x1, K::F8x2, K::F8x3, K::F16x1, K::D, K::A], if q { 10 } else { 14 }, UnaryAlphabet::ShiftIn),
    ];
    if !q {
        full.push((vec![K::F8x2], 16, UnaryAlphabet::Shifts { forms: f3.clone(), all_types: false }));
        full.push((vec![K::F8x3], 20, UnaryAlphabet::Shifts { forms: vec![Form::AsgVal], all_types: false }));
        full.push((vec![K::F8x2], 16, UnaryAlphabet::ShiftIn));
        full.push((vec![K::F8x3], 20, UnaryAlphabet::ShiftIn));
    }
    UnaryPlan {
        full,
        lat: vec![
            (ALL_KINDS.to_vec(), if q { 2 } else { 3 }, UnaryAlphabet::Shifts { forms: if q { f3.clone() } else { f6.clone() }, all_types: !q }),
            (ALL_KINDS.to_vec(), 3, UnaryAlphabet::ShiftIn),
        ],
        lat_short: q,
        required: vec!["shift_amount_above_usize_max", "shift_amount_ge_len", "shift_inside_multiword", "shift_in_on_empty"],
    }
}

fn c06_plan(cfg: &Cfg) -> UnaryPlan {
    let q = cfg.quick();
    let mut full = vec![
        (vec![K::F8x1, K::F8x2, K::F8x3, K::F16x1, K::D, K::A], if q { 9 } else { 12 }, UnaryAlphabet::Rot { inverse: true }),
    ];
    if !q {
        full.push((vec![K::F8x2], 16, UnaryAlphabet::Rot { inverse: false }));
        full.push((vec![K::F8x3], 20, UnaryAlphabet::Rot { inverse: false }));
    }
    UnaryPlan {
        full,
        lat: vec![(ALL_KINDS.to_vec(), if q { 2 } else { 3 }, UnaryAlphabet::Rot { inverse: true })],
        lat_short: q,
        required: vec!["rotation_across_word_boundary", "rotation_of_empty"],
    }
}

pub fn run(cfg: &Cfg) -> Option<(Part, Value, bool)> {
    ROOT_FINDINGS_COUNT.store(cfg.prop == "C03", std::sync::atomic::Ordering::Relaxed);
    STRICT_BATTERY.store(cfg.prop == "C03" || cfg.prop == "C18", std::sync::atomic::Ordering::Relaxed);
    match cfg.prop.as_str() {
        "C01" => {
            let (p, b, e) = arith::run_bin_plan(cfg, &c01_plan(cfg));
            let prim = crate::prims::run(cfg);
            Some((p.merge(prim), serde_json::json!({"operators": b, "primitive_sweep": "mask/cadd/csub/wmul of all six word types through the verif-hooks re-export: u8 complete (2^24 cadd cases), native-integer lattice cubed for wider types, exact big-integer oracle"}), e))
        }
        "C02" => Some(arith::run_bin_plan(cfg, &c02_plan(cfg))),
        "C04" => Some(merge3(arith::run_bin_plan(cfg, &c04_plan(cfg)), arith::run_unary_plan(cfg, &c04_not(cfg)))),
        "C05" => Some(arith::run_unary_plan(cfg, &c05_plan(cfg))),
        "C06" => Some(arith::run_unary_plan(cfg, &c06_plan(cfg))),
        "C03" => Some(crate::hist::run_c03(cfg)),
        "C07" => Some(crate::hist::run_c07(cfg)),
        "C08" => Some(crate::convs::run_c08(cfg)),
        "C09" => Some(crate::convs::run_c09(cfg)),
        "C10" => Some(crate::convs::run_c10(cfg)),
        "C11" => Some(crate::convs2::run_c11(cfg)),
        "C12" => Some(crate::convs2::run_c12(cfg)),
        "C13" => Some(crate::convs2::run_c13(cfg)),
        "C14" => Some(crate::convs2::run_c14(cfg)),
        "C15" => Some(crate::convs2::run_c15(cfg)),
        "C16" => Some(crate::convs::run_c16(cfg)),
        "C17" => Some(crate::iters::run_c17(cfg)),
        "C19" => Some(crate::overflow::run_c19(cfg)),
        "C18" => Some(crate::hist::run_c18(cfg)),
        "C20" => Some(arith::run_forms_plan(cfg, if cfg.quick() { 4 } else { 7 }, true, &[K::F64x2, K::D, K::A])),
        _ => None,
    }
}

/// Replay one violation artefact. Exit code: 1 if the violation reproduces, 0 if the property
/// holds on this input, 2 on a malformed file.
pub fn replay(j: &Value, profile: &'static str, dbg: bool) -> i32 {
    let cfg = Cfg { prop: j["property"].as_str().unwrap_or("?").to_string(), tier: Tier::Quick, profile, dbg, budget_s: 600.0, start: Instant::now() };
    ROOT_FINDINGS_COUNT.store(cfg.prop == "C03", std::sync::atomic::Ordering::Relaxed);
    STRICT_BATTERY.store(cfg.prop == "C03" || cfg.prop == "C18", std::sync::atomic::Ordering::Relaxed);
    let root = j["root"].as_str().unwrap_or("");
    let ops: Vec<String> = j["ops"].as_array().map(|a| a.iter().filter_map(|v| v.as_str().map(|s| s.to_string())).collect()).unwrap_or_default();
    let check = j["check"].as_str().unwrap_or("state");
    println!("replay property={} profile={} root={} check={}", cfg.prop, profile, root, check);
    let part = if check == "state" || check == "battery" {
        match replay_ops(&cfg, root, &ops) {
            Ok(p) => p,
            Err(e) => {
                eprintln!("{}", e);
                return 2;
            }
        }
    } else if check == "forms" {
        match arith::replay_forms(&cfg, root, &ops) {
            Ok(p) => p,
            Err(e) => {
                eprintln!("{}", e);
                return 2;
            }
        }
    } else if let Some(r) = crate::convs::run_cmd(check, dbg).or_else(|| crate::iters::run_cmd(check)).or_else(|| crate::prims::run_cmd(check)).or_else(|| crate::overflow::run_cmd(check, dbg)) {
        match r {
            Ok(ms) => {
                let mut p = Part::new();
                crate::convs::record(&mut p, "replay", "-", "-", vec![], &|| check.to_string(), ms);
                p
            }
            Err(e) => {
                eprintln!("{}", e);
                return 2;
            }
        }
    } else {
        eprintln!("unknown check {}", check);
        return 2;
    };
    if part.classes.is_empty() {
        println!("replay: no violation on this tree (recorded: expected {} / observed {})", j["expected"], j["observed"]);
        0
    } else {
        for (k, c) in &part.classes {
            println!("replay: VIOLATION class={} expected={} observed={}", k, c.first.expected, c.first.observed);
        }
        1
    }
}

#[allow(dead_code)]
fn unused() {
    let _ = (S8, ALL_FORMS);
}
