//! Oracle self-test, run at the start of every check. Ties the fast arithmetic oracles (native
//! u128, BigUint) to the boring bit-list algorithms and to each other, checks the digit
//! generators against std formatting, and the predicted fresh representation against what the
//! library builds. A failure is a machinery error (exit 2), never a verdict.

use crate::enumr;
use mccore::act::{Act, Rb};
use mccore::bits::Bits;
use mccore::dispatch::{BinOp, Form};
use mccore::kinds::*;

fn check_pair(a: &Bits, b: &Bits, n_cmp: &mut u64) -> Result<(), String> {
    let n = a.len();
    let fail = |what: &str| Err(format!("{} a={} b={}", what, a.to_binstr(), b.to_binstr()));
    if a.add(b) != a.add_bl(b) {
        return fail("add");
    }
    if a.sub(b) != a.sub_bl(b) {
        return fail("sub");
    }
    if a.mul(b) != a.mul_bl(b) {
        return fail("mul");
    }
    if a.divrem(b) != a.divrem_bl(b) {
        return fail("divrem");
    }
    *n_cmp += 4;
    if n <= 128 && b.len() <= 128 && n > 0 {
        let mask = if n == 128 { u128::MAX } else { (1u128 << n) - 1 };
        let (x, y) = (a.low_u128(), b.low_u128());
        if a.add_bl(b).low_u128() != x.wrapping_add(y) & mask {
            return fail("add_bl vs u128");
        }
        if a.sub_bl(b).low_u128() != x.wrapping_sub(y) & mask {
            return fail("sub_bl vs u128");
        }
        if a.mul_bl(b).low_u128() != x.wrapping_mul(y) & mask {
            return fail("mul_bl vs u128");
        }
        if y != 0 {
            let (q, r) = a.divrem_bl(b).unwrap();
            if q.low_u128() != x / y || r.low_u128() != x % y {
                return fail("divrem_bl vs u128");
            }
            // q*b + r == a and r < b
            if (x / y) * y + (x % y) != x || x % y >= y {
                return fail("division identity");
            }
        }
        *n_cmp += 4;
    }
    // big-int cross check
    let (ba, bb) = (a.to_big(), b.to_big());
    if Bits::from_big(n, &(&ba * &bb)) != a.mul_bl(b) {
        return fail("mul_bl vs BigUint");
    }
    if Bits::from_big(n, &(&ba + &bb)) != a.add_bl(b) {
        return fail("add_bl vs BigUint");
    }
    *n_cmp += 2;
    Ok(())
}

pub fn run(quick: bool) -> Result<u64, String> {
    let mut n_cmp = 0u64;
    // 1. all operand pairs up to B bits
    let b = if quick { 4 } else { 7 };
    let dom = enumr::full_upto(b);
    for a in &dom {
        for c in &dom {
            check_pair(a, c, &mut n_cmp)?;
        }
    }
    // 2. lattice at the native / big boundaries
    let lens: &[usize] = if quick { &[64, 65, 128, 129] } else { &[63, 64, 65, 127, 128, 129, 192, 257] };
    for &l in lens {
        let vals = enumr::lat(l, 64, 2);
        let step = if quick { 7 } else { 1 };
        for a in vals.iter().step_by(step) {
            for &l2 in lens {
                for c in enumr::lat(l2, 64, 2).iter().step_by(if quick { 11 } else { 3 }) {
                    check_pair(a, c, &mut n_cmp)?;
                }
            }
        }
    }
    // 3. structural identities of the model
    for m in enumr::full_upto(if quick { 5 } else { 8 }) {
        let n = m.len();
        for k in 0..=n {
            if m.rotl(k).rotr(k) != m {
                return Err(format!("rotl/rotr inverse {} {}", m.to_binstr(), k));
            }
            if m.rotl(k) != m.rotr(n - k) {
                return Err(format!("rotl=rotr(n-k) {} {}", m.to_binstr(), k));
            }
            if n <= 128 && n > 0 {
                let mask = if n == 128 { u128::MAX } else { (1u128 << n) - 1 };
                if m.shl(Some(k)).low_u128() != (m.low_u128().checked_shl(k as u32).unwrap_or(0)) & mask {
                    return Err(format!("shl {} {}", m.to_binstr(), k));
                }
                if m.shr(Some(k)).low_u128() != m.low_u128().checked_shr(k as u32).unwrap_or(0) {
                    return Err(format!("shr {} {}", m.to_binstr(), k));
                }
            }
            n_cmp += 4;
        }
        if Bits::from_bytes(&m.to_bytes(false), false).resized(n, false) != m || Bits::from_bytes(&m.to_bytes(true), true).resized(n, false) != m {
            return Err(format!("bytes round trip {}", m.to_binstr()));
        }
        let v = m.low_u128();
        if m.digits_pow2(1, false) != format!("{:b}", v)
            || m.digits_pow2(3, false) != format!("{:o}", v)
            || m.digits_pow2(4, false) != format!("{:x}", v)
            || m.digits_pow2(4, true) != format!("{:X}", v)
            || m.digits_dec() != format!("{}", v)
            || m.digits_dec_bl() != format!("{}", v)
        {
            return Err(format!("digits {}", m.to_binstr()));
        }
        if m.sig() != (128 - v.leading_zeros() as usize) || m.leading(false) != n - m.sig() || m.trailing(true) != (v.trailing_ones() as usize).min(n) {
            return Err(format!("counts {}", m.to_binstr()));
        }
        n_cmp += 9;
    }
    for &l in if quick { &[129usize][..] } else { &[65usize, 128, 129, 200, 257][..] } {
        for m in enumr::lat(l, 64, 2).iter().step_by(if quick { 9 } else { 1 }) {
            if m.digits_dec() != m.digits_dec_bl() {
                return Err(format!("decimal digits {}", m.to_binstr()));
            }
            if let Some(v) = m.to_u128() {
                if m.digits_pow2(4, false) != format!("{:x}", v) || m.digits_pow2(3, false) != format!("{:o}", v) {
                    return Err(format!("digits vs u128 {}", m.to_binstr()));
                }
            }
            n_cmp += 2;
        }
    }
    // 4. predicted fresh representation == what the library builds (spot check here; the observer
    //    sweeps assert it on their whole domain)
    for &k in ALL_KINDS {
        for l in enumr::lat_lengths_short(k) {
            for m in enumr::lat(l, k.word(), 2).iter().step_by(5) {
                let x = fresh(k, m);
                if x.raw() != Raw::predict(k, m) {
                    return Err(format!("fresh representation differs from prediction: {} {}", k.name(), m.to_binstr()));
                }
                if &x.bits() != m {
                    return Err(format!("fresh vector does not read back: {} {}", k.name(), m.to_binstr()));
                }
                n_cmp += 2;
            }
        }
    }
    // 5. text round trip of actions
    let vo = Vo { v: fresh(K::D, &Bits::from_u128(5, 0b10110)), p: Prov::Fresh };
    let acts = vec![
        Act::Push(true),
        Act::Pop,
        Act::Set(3, false),
        Act::Resize(9, true),
        Act::Append(vo.clone()),
        Act::Insert(2, vo.clone()),
        Act::Extend(Bits::from_u128(3, 5)),
        Act::Shift { left: true, amt: Nat::U128(1 << 64), form: Form::AsgRef },
        Act::Not { by_ref: true },
        Act::Bin { op: BinOp::Mul, form: Form::RefVal, rhs: Opd::V(vo.clone()) },
        Act::Bin { op: BinOp::Rem, form: Form::ValVal, rhs: Opd::N(Nat::Us(7)) },
        Act::DivRem(vo.clone()),
        Act::CopyRange(1, 3),
        Act::Rebuild(Rb::Via(K::F64x4)),
        Act::Rebuild(Rb::ReadWrite(true)),
    ];
    for a in acts {
        let s = a.show();
        match Act::parse(&s) {
            Some(b) if b.show() == s => {}
            _ => return Err(format!("action text round trip: {}", s)),
        }
        n_cmp += 1;
    }
    Ok(n_cmp)
}
