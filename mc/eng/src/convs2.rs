//! Engine `conv`, second half: C11 (native integers), C12 (between implementations),
//! C13 (bytes and streams, with a scripted I/O environment), C14 (formatting), C15 (parsing).

use crate::battery::{Level, OracleNum};
use crate::common::*;
use crate::convs::{record, standard_domain, vflags, Mis};
use crate::enumr;
use crate::report::Part;
use bva::{Bit, BitVector, Endianness};
use mccore::act::guard;
use mccore::bits::Bits;
use mccore::conv;
use mccore::kinds::*;
use mccore::{on_any, on_kind};
use rayon::prelude::*;
use serde_json::{json, Value};
use std::io::{Read, Write};

fn mis(what: &str, expected: impl std::fmt::Debug, observed: impl std::fmt::Debug) -> Mis {
    Mis { what: what.to_string(), expected: format!("{:?}", expected), observed: format!("{:?}", observed) }
}
fn guarded(f: impl FnOnce() -> Vec<Mis>) -> Vec<Mis> {
    match guard(f) {
        Ok(v) => v,
        Err(()) => vec![Mis { what: "panicked".into(), expected: "returns".into(), observed: "panicked".into() }],
    }
}
fn en(big: bool) -> Endianness {
    if big {
        Endianness::Big
    } else {
        Endianness::Little
    }
}
fn ename(big: bool) -> &'static str {
    if big {
        "be"
    } else {
        "le"
    }
}
fn hexs(b: &[u8]) -> String {
    if b.is_empty() {
        return "-".into();
    }
    b.iter().map(|x| format!("{:02x}", x)).collect()
}
fn unhex(s: &str) -> Option<Vec<u8>> {
    if s == "-" {
        return Some(vec![]);
    }
    (0..s.len()).step_by(2).map(|i| u8::from_str_radix(s.get(i..i + 2)?, 16).ok()).collect()
}

/// a returned vector must show exactly `m` and behave like a fresh one
fn check_result(part: &mut Part, seen: &Seen, y: &AnyBv, m: &Bits, out: &mut Vec<Mis>) {
    let mut tmp = Part::new();
    let mk = |what: &str, e: String, o: String, _c: &str| crate::report::Violation {
        op: String::new(),
        lhs: String::new(),
        rhs: String::new(),
        form: String::new(),
        flags: vec![],
        what: what.to_string(),
        root: String::new(),
        ops: vec![],
        check: String::new(),
        expected: e,
        observed: o,
    };
    check_vector(&mut tmp, seen, Level::Lite, y, m, &mk, "result:");
    for (_, c) in tmp.classes {
        out.push(Mis { what: c.first.what, expected: c.first.expected, observed: c.first.observed });
    }
    for (k, v) in tmp.counters {
        part.count(&k, v);
    }
    for s in tmp.states {
        part.states.insert(s);
    }
}

// ------------------------------------------------------------------------------------------------
// C11
// ------------------------------------------------------------------------------------------------

fn chk_from_nat(part: &mut Part, seen: &Seen, k: K, n: Nat, by_ref: bool) -> Vec<Mis> {
    let r = guard(|| conv::from_nat(k, n, by_ref));
    let w = n.ty().bits();
    let sig = Bits::from_u128(128, n.val()).sig();
    let mut v = Vec::new();
    let exp_err = k.cap().map_or(false, |c| sig > c);
    match r {
        Err(()) => v.push(mis("panicked", "returns", "panicked")),
        Ok(Err(e)) => {
            if !exp_err || e != "NotEnoughCapacity" {
                v.push(mis("result", if exp_err { "Err(NotEnoughCapacity)" } else { "Ok" }, format!("Err({})", e)));
            }
        }
        Ok(Ok(y)) => {
            if exp_err {
                v.push(mis("result", "Err(NotEnoughCapacity)", format!("Ok(len={})", y.len())));
            } else {
                let l = k.cap().map_or(w, |c| c.min(w));
                check_result(part, seen, &y, &Bits::from_u128(l, n.val()), &mut v);
            }
        }
    }
    v
}

fn chk_to_nat(x: &AnyBv, m: &Bits, ty: NatTy, by_value: bool) -> Vec<Mis> {
    guarded(|| {
        let exp: Result<Nat, String> = if m.sig() <= ty.bits() { Ok(ty.make(m.low_u128() & ty.max()).unwrap()) } else { Err("NotEnoughCapacity".into()) };
        let got = conv::to_nat(x, ty, by_value);
        if got != exp {
            vec![mis("result", exp, got)]
        } else {
            vec![]
        }
    })
}

fn chk_from_slice(part: &mut Part, seen: &Seen, k: K, ty: NatTy, elems: &[u128]) -> Vec<Mis> {
    let r = guard(|| conv::from_slice(k, ty, elems));
    let w = ty.bits();
    let total = w * elems.len();
    let exp_err = k.cap().map_or(false, |c| total > c);
    let mut v = Vec::new();
    match r {
        Err(()) => v.push(mis("panicked", "returns", "panicked")),
        Ok(Err(e)) => {
            if !exp_err || e != "NotEnoughCapacity" {
                v.push(mis("result", if exp_err { "Err(NotEnoughCapacity)" } else { "Ok" }, format!("Err({})", e)));
            }
        }
        Ok(Ok(y)) => {
            if exp_err {
                v.push(mis("result", "Err(NotEnoughCapacity)", format!("Ok(len={})", y.len())));
            } else {
                let mut m = Bits::new();
                for e in elems {
                    m = m.concat_high(&Bits::from_u128(w, *e));
                }
                check_result(part, seen, &y, &m, &mut v);
            }
        }
    }
    v
}

fn chk_bit_conv() -> (u64, Vec<Mis>) {
    let mut n = 0u64;
    let mut v = Vec::new();
    let mut one = |name: &str, val: u128, got: Bit| {
        n += 1;
        let exp = if val != 0 { Bit::One } else { Bit::Zero };
        if got != exp {
            v.push(Mis { what: format!("Bit::from({})", name), expected: format!("{:?} for {}", exp, val), observed: format!("{:?}", got) });
        }
    };
    for x in 0..=u8::MAX {
        one("u8", x as u128, Bit::from(x));
    }
    for x in 0..=u16::MAX {
        one("u16", x as u128, Bit::from(x));
    }
    for ty in ALL_NAT {
        for nat in enumr::ul(*ty) {
            let b = match nat {
                Nat::U8(x) => Bit::from(x),
                Nat::U16(x) => Bit::from(x),
                Nat::U32(x) => Bit::from(x),
                Nat::U64(x) => Bit::from(x),
                Nat::U128(x) => Bit::from(x),
                Nat::Us(x) => Bit::from(x),
            };
            one(ty.name(), nat.val(), b);
        }
    }
    one("bool", 0, Bit::from(false));
    one("bool", 1, Bit::from(true));
    for (b, e) in [(Bit::Zero, 0u128), (Bit::One, 1u128)] {
        n += 7;
        let got = (u8::from(b) as u128, u16::from(b) as u128, u32::from(b) as u128, u64::from(b) as u128, u128::from(b), usize::from(b) as u128, bool::from(b));
        if got != (e, e, e, e, e, e, e == 1) {
            v.push(mis("From<Bit>", e, got));
        }
    }
    (n, v)
}

pub fn run_c11(cfg: &Cfg) -> (Part, Value, bool) {
    let q = cfg.quick();
    let seen = Seen::new();
    let mut part = Part::new();
    for r in ["int_exceeds_fixed_capacity", "vector_exceeds_int_width", "empty_vector_to_int", "slice_exceeds_capacity"] {
        part.require(r);
    }
    // integer -> vector
    let mut nats: Vec<Nat> = Vec::new();
    nats.extend(enumr::all_of(NatTy::U8));
    nats.extend(enumr::all_of(NatTy::U16));
    for ty in [NatTy::U32, NatTy::U64, NatTy::U128, NatTy::Us] {
        nats.extend(enumr::ul(ty));
    }
    let seen_ref = &seen;
    for &k in ALL_KINDS {
        let p = crate::convs::par_over(cfg, &nats, 512, &format!("C11 int->{}", k.name()), |p, n| {
            for by_ref in [false, true] {
                p.transitions += 1;
                if k.cap().map_or(false, |c| Bits::from_u128(128, n.val()).sig() > c) {
                    p.count("int_exceeds_fixed_capacity", 1);
                }
                let ms = chk_from_nat(p, seen_ref, k, *n, by_ref);
                if ms.is_empty() && !p.has_sample("from_nat") && n.val() > 300 {
                    p.sample("from_nat", json!({"target": k.name(), "int": n.show(), "by_ref": by_ref}));
                }
                record(p, "from_nat", k.name(), n.ty().name(), vec![], &|| format!("from_nat {} {} {}", k.name(), n.show(), if by_ref { "ref" } else { "val" }), ms);
            }
        });
        part = part.merge(p);
    }
    // slices
    let mut slices: Vec<(NatTy, Vec<u128>)> = Vec::new();
    slices.push((NatTy::U8, vec![]));
    for a in 0..=255u128 {
        slices.push((NatTy::U8, vec![a]));
    }
    let stepb = if q { 17 } else { 1 };
    for a in (0..=255u128).step_by(if q { 5 } else { 1 }) {
        for b in (0..=255u128).step_by(stepb) {
            slices.push((NatTy::U8, vec![a, b]));
        }
    }
    for ty in ALL_NAT {
        let ul: Vec<u128> = enumr::ul(*ty).into_iter().map(|n| n.val()).collect();
        slices.push((*ty, vec![]));
        for a in ul.iter().step_by(3) {
            slices.push((*ty, vec![*a]));
            for b in ul.iter().step_by(7) {
                slices.push((*ty, vec![*a, *b]));
                slices.push((*ty, vec![*b, *a, ty.max()]));
                slices.push((*ty, vec![*b, 0, *a, 1, ty.max() - 1]));
            }
        }
    }
    for &k in ALL_KINDS {
        let p = crate::convs::par_over(cfg, &slices, 512, &format!("C11 slice->{}", k.name()), |p, (ty, el)| {
            p.transitions += 1;
            if k.cap().map_or(false, |c| ty.bits() * el.len() > c) {
                p.count("slice_exceeds_capacity", 1);
            }
            let ms = chk_from_slice(p, seen_ref, k, *ty, el);
            record(p, "from_slice", k.name(), ty.name(), vec![], &|| format!("from_slice {} {} {}", k.name(), ty.name(), el.iter().map(|e| e.to_string()).collect::<Vec<_>>().join(",")), ms);
        });
        part = part.merge(p);
    }
    // vector -> integer
    for &k in ALL_KINDS {
        let b = crate::convs::full_b(k, if q { 16 } else { 20 }, if q { 9 } else { 12 });
        let dom = standard_domain(&mut part, &seen, k, b, if q { 2 } else { 3 }, q);
        let p = crate::convs::par_over(cfg, &dom, 64, &format!("C11 {}->int", k.name()), |p, x| {
            let m = x.v.bits();
            p.state(&x.v.raw());
            for ty in ALL_NAT {
                for by_value in [false, true] {
                    p.transitions += 1;
                    if m.sig() > ty.bits() {
                        p.count("vector_exceeds_int_width", 1);
                    }
                    if m.is_empty() {
                        p.count("empty_vector_to_int", 1);
                    }
                    let ms = chk_to_nat(&x.v, &m, *ty, by_value);
                    record(p, "to_nat", k.name(), ty.name(), vflags(&x.v, x.p), &|| format!("to_nat {} {} {}", x.show(), ty.name(), if by_value { "val" } else { "ref" }), ms);
                }
            }
        });
        part = part.merge(p);
    }
    let (n, ms) = chk_bit_conv();
    part.transitions += n;
    record(&mut part, "bit_conv", "Bit", "-", vec![], &|| "bit_conv".to_string(), ms);
    (part, json!({"int_to_vector": {"u8": "complete", "u16": "complete", "wider": "UL lattice", "forms": "by value and by reference", "targets": "all 17 kinds"},
        "slices": {"u8": "0,1 elements complete, 2 elements grid", "others": "lattice elements, 0..5 elements"},
        "vector_to_int": "standard domain of every kind x six integer types x by value/by reference", "bit": "u8,u16 complete, lattice for wider, bool"}), true)
}

// ------------------------------------------------------------------------------------------------
// C12
// ------------------------------------------------------------------------------------------------

fn chk_convert(part: &mut Part, seen: &Seen, x: &AnyBv, m: &Bits, to: K, by_value: bool) -> Vec<Mis> {
    let before = x.raw();
    let r = guard(|| conv::convert(x, to, by_value));
    let mut v = Vec::new();
    let exp_err = to.cap().map_or(false, |c| m.len() > c);
    match r {
        Err(()) => v.push(mis("panicked", "returns", "panicked")),
        Ok(Err(e)) => {
            if !exp_err || e != "NotEnoughCapacity" {
                v.push(mis("result", if exp_err { "Err(NotEnoughCapacity)" } else { "Ok" }, format!("Err({})", e)));
            }
        }
        Ok(Ok(y)) => {
            if exp_err {
                v.push(mis("result", "Err(NotEnoughCapacity)", format!("Ok(len={})", y.len())));
            } else {
                if y.kind() != to {
                    v.push(mis("type", to.name(), y.kind().name()));
                }
                check_result(part, seen, &y, m, &mut v);
            }
        }
    }
    if x.raw() != before {
        v.push(mis("source_modified", before.hex(), x.raw().hex()));
    }
    v
}

fn chk_new_inner(x: &AnyBv) -> Vec<Mis> {
    guarded(|| {
        let y = conv::new_inner(x.clone());
        if y.raw() != x.raw() {
            vec![mis("new(into_inner())", x.raw().hex(), y.raw().hex())]
        } else {
            vec![]
        }
    })
}

pub fn run_c12(cfg: &Cfg) -> (Part, Value, bool) {
    let q = cfg.quick();
    let seen = Seen::new();
    let mut part = Part::new();
    for r in ["source_longer_than_target_capacity", "source_len_eq_target_capacity", "source_with_spare_or_heap_mode"] {
        part.require(r);
    }
    let seen_ref = &seen;
    let mut pairs = 0;
    for &k in ALL_KINDS {
        let b = crate::convs::full_b(k, if q { 15 } else { 19 }, if q { 8 } else { 11 });
        let mut dom = standard_domain(&mut part, &seen, k, b, if q { 2 } else { 3 }, q);
        // source lengths at C_target-1, C_target, C_target+1 for every target
        let mut extra: std::collections::BTreeSet<usize> = std::collections::BTreeSet::new();
        for t in FIXED_KINDS {
            let c = t.cap().unwrap();
            extra.extend([c - 1, c, c + 1]);
        }
        for l in extra {
            if k.cap().map_or(true, |c| l <= c) {
                for m in crate::hist::lat_small(l) {
                    dom.extend(crate::arith::roots_of(&mut part, &seen, k, &m, if k == K::D || k == K::A { crate::arith::PROVS_SPARE2 } else { crate::arith::PROVS_PLAIN }));
                }
            }
        }
        pairs += ALL_KINDS.len();
        let p = crate::convs::par_over(cfg, &dom, 64, &format!("C12 {}->*", k.name()), |p, x| {
            let m = x.v.bits();
            p.state(&x.v.raw());
            for &to in ALL_KINDS {
                for by_value in [false, true] {
                    if !conv::has_conv(k, to, by_value) {
                        continue;
                    }
                    p.transitions += 1;
                    if let Some(c) = to.cap() {
                        if m.len() > c {
                            p.count("source_longer_than_target_capacity", 1);
                        }
                        if m.len() == c {
                            p.count("source_len_eq_target_capacity", 1);
                        }
                    }
                    if x.p.spare() {
                        p.count("source_with_spare_or_heap_mode", 1);
                    }
                    let ms = chk_convert(p, seen_ref, &x.v, &m, to, by_value);
                    if ms.is_empty() && !p.has_sample("convert") && m.len() > 8 && to != k {
                        p.sample("convert", json!({"source": x.show(), "target": to.name(), "by_value": by_value}));
                    }
                    record(p, "convert", k.name(), to.name(), vflags(&x.v, x.p), &|| format!("convert {} {} {}", x.show(), to.name(), if by_value { "val" } else { "ref" }), ms);
                }
            }
            p.transitions += 1;
            let ms = chk_new_inner(&x.v);
            record(p, "new_inner", k.name(), "-", vflags(&x.v, x.p), &|| format!("new_inner {}", x.show()), ms);
        });
        part = part.merge(p);
    }
    (part, json!({"ordered_kind_pairs": pairs, "forms": "by reference everywhere, by value wherever an impl exists (not Bvf->Bvf)", "sources": "standard domain + lengths C_target-1,C_target,C_target+1 of every fixed target"}), true)
}

// ------------------------------------------------------------------------------------------------
// C13: scripted I/O environment
// ------------------------------------------------------------------------------------------------

#[derive(Clone, Copy, PartialEq, Eq, Debug)]
pub enum Ev {
    Full,
    Short(usize),
    Interrupted,
    Error,
    Eof,
}
impl Ev {
    fn show(self) -> String {
        match self {
            Ev::Full => "F".into(),
            Ev::Short(k) => format!("S{}", k),
            Ev::Interrupted => "I".into(),
            Ev::Error => "E".into(),
            Ev::Eof => "Z".into(),
        }
    }
    fn parse(s: &str) -> Option<Ev> {
        Some(match s {
            "F" => Ev::Full,
            "I" => Ev::Interrupted,
            "E" => Ev::Error,
            "Z" => Ev::Eof,
            _ => Ev::Short(s.strip_prefix('S')?.parse().ok()?),
        })
    }
}
fn show_script(s: &[Ev]) -> String {
    if s.is_empty() {
        "-".into()
    } else {
        s.iter().map(|e| e.show()).collect::<Vec<_>>().join(",")
    }
}
fn parse_script(s: &str) -> Option<Vec<Ev>> {
    if s == "-" {
        return Some(vec![]);
    }
    s.split(',').map(Ev::parse).collect()
}

struct ScriptReader {
    data: Vec<u8>,
    pos: usize,
    script: Vec<Ev>,
    i: usize,
}
impl Read for ScriptReader {
    fn read(&mut self, buf: &mut [u8]) -> std::io::Result<usize> {
        let ev = self.script.get(self.i).copied().unwrap_or(Ev::Full);
        self.i += 1;
        let remaining = self.data.len() - self.pos;
        let n = match ev {
            Ev::Full => buf.len().min(remaining),
            Ev::Short(k) => k.min(buf.len()).min(remaining),
            Ev::Interrupted => return Err(std::io::Error::new(std::io::ErrorKind::Interrupted, "scripted")),
            Ev::Error => return Err(std::io::Error::new(std::io::ErrorKind::Other, "scripted")),
            Ev::Eof => 0,
        };
        buf[..n].copy_from_slice(&self.data[self.pos..self.pos + n]);
        self.pos += n;
        Ok(n)
    }
}

/// what `read_exact(nbytes)` does against this script, per its documentation
fn simulate_read_exact(data_len: usize, nbytes: usize, script: &[Ev]) -> Result<(), std::io::ErrorKind> {
    let mut got = 0;
    let mut pos = 0;
    let mut i = 0;
    while got < nbytes {
        let ev = script.get(i).copied().unwrap_or(Ev::Full);
        i += 1;
        let want = nbytes - got;
        let remaining = data_len - pos;
        let n = match ev {
            Ev::Full => want.min(remaining),
            Ev::Short(k) => k.min(want).min(remaining),
            Ev::Interrupted => continue,
            Ev::Error => return Err(std::io::ErrorKind::Other),
            Ev::Eof => 0,
        };
        if n == 0 {
            return Err(std::io::ErrorKind::UnexpectedEof);
        }
        got += n;
        pos += n;
    }
    Ok(())
}

struct ScriptWriter {
    out: Vec<u8>,
    script: Vec<Ev>,
    i: usize,
}
impl Write for ScriptWriter {
    fn write(&mut self, buf: &[u8]) -> std::io::Result<usize> {
        let ev = self.script.get(self.i).copied().unwrap_or(Ev::Full);
        self.i += 1;
        let n = match ev {
            Ev::Full => buf.len(),
            Ev::Short(k) => k.min(buf.len()),
            Ev::Interrupted => return Err(std::io::Error::new(std::io::ErrorKind::Interrupted, "scripted")),
            Ev::Error => return Err(std::io::Error::new(std::io::ErrorKind::Other, "scripted")),
            Ev::Eof => 0,
        };
        self.out.extend_from_slice(&buf[..n]);
        Ok(n)
    }
    fn flush(&mut self) -> std::io::Result<()> {
        Ok(())
    }
}

fn simulate_write_all(nbytes: usize, script: &[Ev]) -> Result<(), std::io::ErrorKind> {
    let mut done = 0;
    let mut i = 0;
    while done < nbytes {
        let ev = script.get(i).copied().unwrap_or(Ev::Full);
        i += 1;
        let n = match ev {
            Ev::Full => nbytes - done,
            Ev::Short(k) => k.min(nbytes - done),
            Ev::Interrupted => continue,
            Ev::Error => return Err(std::io::ErrorKind::Other),
            Ev::Eof => 0,
        };
        if n == 0 {
            return Err(std::io::ErrorKind::WriteZero);
        }
        done += n;
    }
    Ok(())
}

/// all scripts of length <= maxlen with at most `dev` deviations from the default answer
fn scripts(maxlen: usize, dev: usize) -> Vec<Vec<Ev>> {
    let menu = [Ev::Short(1), Ev::Short(2), Ev::Interrupted, Ev::Error, Ev::Eof];
    let mut out: Vec<Vec<Ev>> = vec![vec![]];
    if dev >= 1 {
        for p in 0..maxlen {
            for e in menu {
                let mut s = vec![Ev::Full; p];
                s.push(e);
                out.push(s);
            }
        }
    }
    if dev >= 2 {
        for p1 in 0..maxlen {
            for p2 in p1 + 1..maxlen {
                for e1 in menu {
                    for e2 in menu {
                        let mut s = vec![Ev::Full; p2 + 1];
                        s[p1] = e1;
                        s[p2] = e2;
                        out.push(s);
                    }
                }
            }
        }
    }
    out
}

fn chk_to_vec(x: &AnyBv, m: &Bits, big: bool) -> Vec<Mis> {
    guarded(|| {
        let got = on_any!(x, y => y.to_vec(en(big)));
        let exp = m.to_bytes(big);
        if got != exp {
            vec![mis("to_vec", hexs(&exp), hexs(&got))]
        } else {
            vec![]
        }
    })
}

fn chk_write(x: &AnyBv, m: &Bits, big: bool, script: &[Ev]) -> Vec<Mis> {
    guarded(|| {
        let mut w = ScriptWriter { out: vec![], script: script.to_vec(), i: 0 };
        let r = on_any!(x, y => y.write(&mut w, en(big)));
        let exp = m.to_bytes(big);
        let sim = simulate_write_all(exp.len(), script);
        let mut v = Vec::new();
        match (sim, r) {
            (Ok(()), Ok(())) => {
                if w.out != exp {
                    v.push(mis("written bytes", hexs(&exp), hexs(&w.out)));
                }
            }
            (Err(k), Err(e)) => {
                if e.kind() != k {
                    v.push(mis("error kind", k, e.kind()));
                }
                if !exp.starts_with(&w.out) {
                    v.push(mis("bytes written before the error", hexs(&exp), hexs(&w.out)));
                }
            }
            (s, r) => v.push(mis("write result", s, r.map_err(|e| e.kind()))),
        }
        v
    })
}

fn chk_from_bytes(part: &mut Part, seen: &Seen, k: K, bytes: &[u8], big: bool) -> Vec<Mis> {
    let r = guard(|| on_kind!(k, T => T::from_bytes(bytes, en(big)).map(|y| y.wrap())));
    let exp_err = k.cap().map_or(false, |c| bytes.len() * 8 > c);
    let mut v = Vec::new();
    match r {
        Err(()) => v.push(mis("panicked", "returns", "panicked")),
        Ok(Err(e)) => {
            if !exp_err || e != bva::ConvertionError::NotEnoughCapacity {
                v.push(mis("result", if exp_err { "Err(NotEnoughCapacity)" } else { "Ok" }, e));
            }
        }
        Ok(Ok(y)) => {
            if exp_err {
                v.push(mis("result", "Err(NotEnoughCapacity)", format!("Ok(len={})", y.len())));
            } else {
                check_result(part, seen, &y, &Bits::from_bytes(bytes, big), &mut v);
            }
        }
    }
    v
}

fn chk_read(part: &mut Part, seen: &Seen, k: K, data: &[u8], len: usize, big: bool, script: &[Ev]) -> Vec<Mis> {
    let nbytes = (len + 7) / 8;
    let mut rd = ScriptReader { data: data.to_vec(), pos: 0, script: script.to_vec(), i: 0 };
    let r = guard(|| on_kind!(k, T => T::read(&mut rd, len, en(big)).map(|y| y.wrap())));
    let mut v = Vec::new();
    let cap_err = k.cap().map_or(false, |c| len > c);
    match r {
        Err(()) => v.push(mis("panicked", "returns Ok or Err", "panicked")),
        Ok(res) => {
            if cap_err {
                if let Ok(y) = res {
                    v.push(mis("result", "Err (insufficient capacity)", format!("Ok(len={})", y.len())));
                }
                return v;
            }
            let sim = simulate_read_exact(data.len(), nbytes, script);
            match (sim, res) {
                (Ok(()), Ok(y)) => {
                    let m = Bits::from_bytes(&data[..nbytes], big).resized(len, false);
                    check_result(part, seen, &y, &m, &mut v);
                    if rd.pos != nbytes {
                        v.push(mis("bytes consumed", nbytes, rd.pos));
                    }
                }
                (Err(kind), Err(e)) => {
                    if e.kind() != kind {
                        v.push(mis("error kind", kind, e.kind()));
                    }
                }
                (s, r) => v.push(mis("read result", s.map(|_| "Ok"), r.map(|y| format!("Ok(len={})", y.len())).map_err(|e| e.kind()))),
            }
        }
    }
    v
}

fn chk_roundtrip(x: &AnyBv, m: &Bits, big: bool) -> Vec<Mis> {
    guarded(|| {
        let mut v = Vec::new();
        let k = x.kind();
        // read(write(v)) == v bit for bit
        let mut buf: Vec<u8> = Vec::new();
        on_any!(x, y => y.write(&mut buf, en(big))).unwrap();
        let mut cur = std::io::Cursor::new(buf.clone());
        match on_kind!(k, T => T::read(&mut cur, m.len(), en(big)).map(|y| y.wrap())) {
            Ok(y) => {
                if &y.bits() != m {
                    v.push(mis("read(write(v))", m.to_binstr(), y.bits().to_binstr()));
                }
            }
            Err(e) => v.push(mis("read(write(v))", "Ok", e.kind())),
        }
        // from_bytes(to_vec(v)) == v zero extended to whole bytes
        let bytes = on_any!(x, y => y.to_vec(en(big)));
        let whole = (m.len() + 7) / 8 * 8;
        match on_kind!(k, T => T::from_bytes(&bytes, en(big)).map(|y| y.wrap())) {
            Ok(y) => {
                if y.bits() != m.resized(whole, false) {
                    v.push(mis("from_bytes(to_vec(v))", m.resized(whole, false).to_binstr(), y.bits().to_binstr()));
                }
            }
            Err(e) => {
                if k.cap().map_or(true, |c| whole <= c) {
                    v.push(mis("from_bytes(to_vec(v))", "Ok", e));
                }
            }
        }
        v
    })
}

fn byte_strings(q: bool) -> Vec<Vec<u8>> {
    let mut v: Vec<Vec<u8>> = vec![vec![]];
    for a in 0..=255u8 {
        v.push(vec![a]);
    }
    for a in (0..=255u8).step_by(if q { 15 } else { 1 }) {
        for b in (0..=255u8).step_by(if q { 5 } else { 1 }) {
            v.push(vec![a, b]);
        }
    }
    for n in [3usize, 4, 7, 8, 9, 15, 16, 17, 23, 24, 25, 31, 32, 33] {
        for pat in 0..6 {
            let s: Vec<u8> = (0..n)
                .map(|i| match pat {
                    0 => 0x00,
                    1 => 0xff,
                    2 => (i as u8).wrapping_mul(37).wrapping_add(1),
                    3 => if i + 1 == n { 0x80 } else { 0 },
                    4 => if i == 0 { 0x01 } else { 0 },
                    _ => if i % 2 == 0 { 0xA5 } else { 0x3C },
                })
                .collect();
            v.push(s);
        }
    }
    v
}

pub fn run_c13(cfg: &Cfg) -> (Part, Value, bool) {
    let q = cfg.quick();
    let seen = Seen::new();
    let mut part = Part::new();
    for r in ["len_not_multiple_of_8", "read_surplus_high_bits_set", "read_short_input", "read_interrupted_retried", "read_insufficient_capacity", "from_bytes_exceeds_capacity", "write_deviation_scripts"] {
        part.require(r);
    }
    let seen_ref = &seen;
    let wscripts = scripts(3, 2);
    // to_vec / write / round trips
    for &k in ALL_KINDS {
        let b = crate::convs::full_b(k, if q { 15 } else { 19 }, if q { 8 } else { 11 });
        let dom = standard_domain(&mut part, &seen, k, b, if q { 2 } else { 3 }, q);
        let ws = &wscripts;
        let p = crate::convs::par_over(cfg, &dom, 64, &format!("C13 to_vec/write {}", k.name()), |p, x| {
            let m = x.v.bits();
            p.state(&x.v.raw());
            if m.len() % 8 != 0 {
                p.count("len_not_multiple_of_8", 1);
            }
            for big in [false, true] {
                p.transitions += 2;
                let ms = chk_to_vec(&x.v, &m, big);
                if ms.is_empty() && !p.has_sample("to_vec") && m.len() > 9 && m.len() % 8 != 0 {
                    p.sample("to_vec", json!({"x": x.show(), "endianness": ename(big), "bytes": hexs(&m.to_bytes(big))}));
                }
                record(p, "to_vec", k.name(), ename(big), vflags(&x.v, x.p), &|| format!("to_vec {} {}", x.show(), ename(big)), ms);
                let ms = chk_roundtrip(&x.v, &m, big);
                record(p, "roundtrip", k.name(), ename(big), vflags(&x.v, x.p), &|| format!("roundtrip {} {}", x.show(), ename(big)), ms);
                // write under every script for short vectors, default + one-deviation scripts otherwise
                for (si, sc) in ws.iter().enumerate() {
                    if m.len() > 24 && si % 7 != 0 {
                        continue;
                    }
                    p.transitions += 1;
                    if !sc.is_empty() {
                        p.count("write_deviation_scripts", 1);
                    }
                    let ms = chk_write(&x.v, &m, big, sc);
                    record(p, "write", k.name(), ename(big), vflags(&x.v, x.p), &|| format!("write {} {} {}", x.show(), ename(big), show_script(sc)), ms);
                }
            }
        });
        part = part.merge(p);
    }
    // from_bytes / read
    let strings = byte_strings(q);
    let rscripts = scripts(3, 2);
    for &k in ALL_KINDS {
        let rs = &rscripts;
        let p = crate::convs::par_over(cfg, &strings, 64, &format!("C13 from_bytes/read {}", k.name()), |p, bytes| {
            for big in [false, true] {
                p.transitions += 1;
                if k.cap().map_or(false, |c| bytes.len() * 8 > c) {
                    p.count("from_bytes_exceeds_capacity", 1);
                }
                let ms = chk_from_bytes(p, seen_ref, k, bytes, big);
                record(p, "from_bytes", k.name(), ename(big), vec![], &|| format!("from_bytes {} {} {}", k.name(), ename(big), hexs(bytes)), ms);
                // read: data = bytes + 2 sentinel bytes; every len with ceil(len/8) <= |bytes|+1
                let mut data = bytes.clone();
                data.extend_from_slice(&[0xEE, 0x77]);
                let maxlen = (bytes.len() + 1) * 8;
                let lens: Vec<usize> = if bytes.len() <= 2 { (0..=maxlen).collect() } else { let n = bytes.len() * 8; vec![n.saturating_sub(9), n.saturating_sub(8), n.saturating_sub(7), n - 1, n, n + 1, n + 8] };
                for len in lens {
                    let nbytes = (len + 7) / 8;
                    for (si, sc) in rs.iter().enumerate() {
                        if bytes.len() > 2 && si % 5 != 0 {
                            continue;
                        }
                        if bytes.len() == 2 && !sc.is_empty() && si % 3 != 0 {
                            continue;
                        }
                        p.transitions += 1;
                        if len % 8 != 0 && nbytes <= data.len() {
                            let top = if big { data[0] } else { data[nbytes - 1] };
                            if top >> (len % 8) != 0 {
                                p.count("read_surplus_high_bits_set", 1);
                            }
                        }
                        if k.cap().map_or(false, |c| len > c) {
                            p.count("read_insufficient_capacity", 1);
                        }
                        if sc.contains(&Ev::Interrupted) {
                            p.count("read_interrupted_retried", 1);
                        }
                        // also a truncated data source (short input) for the default script
                        let ms = chk_read(p, seen_ref, k, &data, len, big, sc);
                        record(p, "read", k.name(), ename(big), vec![], &|| format!("read {} {} {} {} {}", k.name(), ename(big), len, hexs(&data), show_script(sc)), ms);
                        if sc.is_empty() && nbytes > 0 {
                            p.transitions += 1;
                            p.count("read_short_input", 1);
                            let short = &data[..nbytes - 1];
                            let ms = chk_read(p, seen_ref, k, short, len, big, sc);
                            record(p, "read", k.name(), ename(big), vec!["short_input".into()], &|| format!("read {} {} {} {} {}", k.name(), ename(big), len, hexs(short), show_script(sc)), ms);
                        }
                    }
                }
            }
        });
        part = part.merge(p);
    }
    (part, json!({"byte_strings": strings.len(), "byte_string_rule": "all strings of <= 2 bytes (grid in quick), six patterns at 3..33 bytes",
        "read_lengths": "every len with ceil(len/8) <= |bytes|+1 for <= 2 bytes; boundary lens beyond", "io_scripts": rscripts.len(),
        "io_script_rule": "all answer scripts over {short 1, short 2, Interrupted, hard error, EOF/zero} with at most 2 deviations from the default answer within the first 3 calls"}), true)
}

// ------------------------------------------------------------------------------------------------
// C14 formatting
// ------------------------------------------------------------------------------------------------

macro_rules! fmt_matrix {
    ($v:expr) => {
        vec![
            format!("{}", $v), format!("{:b}", $v), format!("{:o}", $v), format!("{:x}", $v), format!("{:X}", $v),
            format!("{:#}", $v), format!("{:#b}", $v), format!("{:#o}", $v), format!("{:#x}", $v), format!("{:#X}", $v),
            format!("{:+}", $v), format!("{:+b}", $v), format!("{:+x}", $v),
            format!("{:012}", $v), format!("{:012b}", $v), format!("{:012o}", $v), format!("{:012x}", $v), format!("{:012X}", $v),
            format!("{:*<7}", $v), format!("{:*^7}", $v), format!("{:*>7}", $v),
            format!("{:*<7b}", $v), format!("{:*^7o}", $v), format!("{:*>7x}", $v), format!("{:*^9X}", $v),
            format!("{:#020}", $v), format!("{:#020b}", $v), format!("{:#020o}", $v), format!("{:#020x}", $v), format!("{:#020X}", $v),
            format!("{:+#}", $v), format!("{:+#b}", $v), format!("{:+#x}", $v), format!("{:+#012x}", $v),
            format!("{:>40b}", $v), format!("{:<5}", $v), format!("{:7.3}", $v), format!("{:#^11o}", $v),
        ]
    };
}
const FMT_NAMES: [&str; 38] = [
    "{}", "{:b}", "{:o}", "{:x}", "{:X}", "{:#}", "{:#b}", "{:#o}", "{:#x}", "{:#X}", "{:+}", "{:+b}", "{:+x}", "{:012}", "{:012b}", "{:012o}", "{:012x}", "{:012X}", "{:*<7}", "{:*^7}", "{:*>7}", "{:*<7b}",
    "{:*^7o}", "{:*>7x}", "{:*^9X}", "{:#020}", "{:#020b}", "{:#020o}", "{:#020x}", "{:#020X}", "{:+#}", "{:+#b}", "{:+#x}", "{:+#012x}", "{:>40b}", "{:<5}", "{:7.3}", "{:#^11o}",
];

fn chk_fmt(x: &AnyBv, m: &Bits) -> Vec<Mis> {
    guarded(|| {
        let got = on_any!(x, y => fmt_matrix!(y));
        let exp = match m.to_u128() {
            Some(v) => fmt_matrix!(v),
            None => {
                let o = OracleNum::of(m);
                fmt_matrix!(o)
            }
        };
        let mut v = Vec::new();
        for i in 0..got.len() {
            if got[i] != exp[i] {
                v.push(Mis { what: format!("format {}", FMT_NAMES[i]), expected: exp[i].clone(), observed: got[i].clone() });
            }
        }
        v
    })
}

pub fn run_c14(cfg: &Cfg) -> (Part, Value, bool) {
    let q = cfg.quick();
    let seen = Seen::new();
    let mut part = Part::new();
    for r in ["value_zero", "empty_vector", "leading_zero_digits", "wider_than_128_bits"] {
        part.require(r);
    }
    let mut desc = Vec::new();
    for &k in ALL_KINDS {
        let b = crate::convs::full_b(k, if q { 14 } else { 18 }, if q { 9 } else { 12 });
        let dom = standard_domain(&mut part, &seen, k, b, if q { 2 } else { 3 }, q);
        desc.push(json!({"kind": k.name(), "subjects": dom.len()}));
        let p = crate::convs::par_over(cfg, &dom, 32, &format!("C14 {}", k.name()), |p, x| {
            let m = x.v.bits();
            p.state(&x.v.raw());
            p.transitions += FMT_NAMES.len() as u64;
            if m.is_empty() {
                p.count("empty_vector", 1);
            } else if m.is_zero() {
                p.count("value_zero", 1);
            }
            if m.len() >= m.sig() + 4 && !m.is_zero() {
                p.count("leading_zero_digits", 1);
            }
            if m.sig() > 128 {
                p.count("wider_than_128_bits", 1);
            }
            let ms = chk_fmt(&x.v, &m);
            if ms.is_empty() && !p.has_sample("fmt") && m.sig() > 9 {
                p.sample("fmt", json!({"x": x.show(), "{:#x}": format!("{:#x}", m.low_u128()), "specs": FMT_NAMES.len()}));
            }
            record(p, "fmt", k.name(), "-", vflags(&x.v, x.p), &|| format!("fmt {}", x.show()), ms);
        });
        part = part.merge(p);
    }
    (part, json!({"domains": desc, "format_specs": FMT_NAMES.to_vec(), "oracle": "format!(spec, value as u128) up to 128 bits; digit strings of the bit-list model through Formatter::pad_integral beyond"}), true)
}

// ------------------------------------------------------------------------------------------------
// C15 parsing
// ------------------------------------------------------------------------------------------------

fn chk_parse(part: &mut Part, seen: &Seen, k: K, s: &str, hex: bool) -> Vec<Mis> {
    let r = guard(|| on_kind!(k, T => if hex { T::from_hex(s) } else { T::from_binary(s) }.map(|y| y.wrap())));
    let chars: Vec<char> = s.chars().collect();
    let bits_per = if hex { 4 } else { 1 };
    let too_long = k.cap().map_or(false, |c| chars.len() * bits_per > c);
    let valid = |c: &char| if hex { c.is_ascii_hexdigit() } else { *c == '0' || *c == '1' };
    let bad = chars.iter().position(|c| !valid(c));
    let mut v = Vec::new();
    match r {
        Err(()) => v.push(mis("panicked", "returns", "panicked")),
        Ok(res) => match (too_long, bad, res) {
            (false, None, Ok(y)) => {
                let mut m = Bits::new();
                for c in chars.iter().rev() {
                    let d = c.to_digit(16).unwrap();
                    m = m.concat_high(&Bits::from_u128(bits_per, d as u128));
                }
                check_result(part, seen, &y, &m, &mut v);
            }
            (false, Some(i), Err(bva::ConvertionError::InvalidFormat(j))) if i == j => {}
            (true, None, Err(bva::ConvertionError::NotEnoughCapacity)) => {}
            // too long and malformed: either error is accepted
            (true, Some(_), Err(_)) => {}
            (tl, b, res) => v.push(mis(
                "parse result",
                if tl && b.is_none() { "Err(NotEnoughCapacity)".to_string() } else if let Some(i) = b { format!("Err(InvalidFormat({}))", i) } else { "Ok".to_string() },
                res.map(|y| format!("Ok(len={} bits={})", y.len(), y.bits().to_binstr())).map_err(|e| format!("{:?}", e)),
            )),
        },
    }
    v
}

fn chk_parse_roundtrip(x: &AnyBv, m: &Bits) -> Vec<Mis> {
    guarded(|| {
        let k = x.kind();
        let mut v = Vec::new();
        let texts = on_any!(x, y => (format!("{:b}", y), format!("{:x}", y), format!("{:X}", y)));
        for (name, text, hex) in [("{:b}", &texts.0, false), ("{:x}", &texts.1, true), ("{:X}", &texts.2, true)] {
            let r = on_kind!(k, T => if hex { T::from_hex(text) } else { T::from_binary(text) }.map(|y| y.wrap()));
            match r {
                Ok(y) => {
                    if y.bits().cmp_num(m) != std::cmp::Ordering::Equal {
                        v.push(mis(&format!("parse({})", name), m.to_binstr(), y.bits().to_binstr()));
                    }
                    if !mccore::dispatch::compare(&y, x).eq {
                        v.push(mis(&format!("parse({}) == v", name), true, false));
                    }
                }
                Err(e) => v.push(mis(&format!("parse({})", name), "Ok", e)),
            }
        }
        v
    })
}

fn strings_over(alphabet: &[char], maxlen: usize) -> Vec<String> {
    let mut out = vec![String::new()];
    let mut cur = vec![String::new()];
    for _ in 0..maxlen {
        let mut next = Vec::new();
        for s in &cur {
            for c in alphabet {
                let mut t = s.clone();
                t.push(*c);
                next.push(t);
            }
        }
        out.extend(next.iter().cloned());
        cur = next;
    }
    out
}

pub fn run_c15(cfg: &Cfg) -> (Part, Value, bool) {
    let q = cfg.quick();
    let seen = Seen::new();
    let mut part = Part::new();
    for r in ["invalid_character", "non_ascii_character", "exceeds_fixed_capacity", "empty_string", "at_inline_limit"] {
        part.require(r);
    }
    let seen_ref = &seen;
    let mut bin: Vec<String> = strings_over(&['0', '1'], if q { 11 } else { 15 });
    bin.extend(strings_over(&['0', '1', '2', 'x', 'é'], if q { 5 } else { 6 }));
    let hexchars: Vec<char> = "0123456789abcdefABCDEF".chars().collect();
    let mut hx: Vec<String> = strings_over(&hexchars, 3);
    hx.extend(strings_over(&['0', 'f', 'A', 'g', ' ', 'é', '１'], 4));
    // characters that alias a valid digit under a narrowing cast or a case/width fold: code point
    // = digit + 0x80, + 0x100, + 0x10000, the full-width forms, and neighbours of the digit ranges
    let mut alias: Vec<char> = Vec::new();
    for d in "01289afAFgG/:@`".chars() {
        for off in [0x80u32, 0x100, 0x10000] {
            if let Some(c) = char::from_u32(d as u32 + off) {
                alias.push(c);
            }
        }
        alias.push(d);
    }
    alias.extend(['０', '１', 'ａ', 'Ｆ', '٠', '١', '\u{0}', '\n', '+', '-', '_', 'x', 'X']);
    for a in &alias {
        for ctx in ["", "1", "0f", "A0a"] {
            for pos in 0..=ctx.chars().count() {
                let mut cs: Vec<char> = ctx.chars().collect();
                cs.insert(pos, *a);
                hx.push(cs.iter().collect());
                let mut bs: Vec<char> = ctx.chars().map(|c| if c == '1' || c == 'f' || c == 'A' { '1' } else { '0' }).collect();
                bs.insert(pos, *a);
                bin.push(bs.iter().collect());
            }
        }
    }
    // lattice strings around each capacity / the inline limit
    let mut lens: std::collections::BTreeSet<usize> = std::collections::BTreeSet::new();
    for k in FIXED_KINDS {
        let c = k.cap().unwrap();
        lens.extend([c - 1, c, c + 1, c / 4 - 1, c / 4, c / 4 + 1]);
    }
    lens.extend([31, 32, 33, 127, 128, 129, 200]);
    for &l in &lens {
        for pat in 0..5 {
            let s: String = (0..l)
                .map(|i| match pat {
                    0 => '0',
                    1 => '1',
                    2 => if i % 3 == 0 { '1' } else { '0' },
                    3 => if i == 0 { '1' } else { '0' },
                    _ => if i + 1 == l { '1' } else { '0' },
                })
                .collect();
            bin.push(s.clone());
            if l <= 130 {
                let h: String = (0..l).map(|i| match pat { 0 => '0', 1 => 'f', 2 => hexchars[(i * 7 + 3) % 22], 3 => if i == 0 { '8' } else { '0' }, _ => if i + 1 == l { 'A' } else { '0' } }).collect();
                hx.push(h);
            }
            if pat == 2 && l > 2 {
                // an offending character at the start, middle, end
                for pos in [0, l / 2, l - 1] {
                    let mut cs: Vec<char> = s.chars().collect();
                    cs[pos] = 'é';
                    bin.push(cs.iter().collect());
                    if l <= 130 {
                        let mut hs: Vec<char> = (0..l).map(|i| hexchars[(i * 5 + 1) % 22]).collect();
                        hs[pos] = 'g';
                        hx.push(hs.iter().collect());
                    }
                }
            }
        }
    }
    // long strings: an offending / aliasing character at the start, at every storage-chunk boundary
    // (16 hex digits, 64 binary digits, 8-bit and 2-nibble sub-boundaries) +-1, in the middle, at the end
    let offenders = ['+', '-', ' ', '_', 'g', 'G', 'x', 'é', '٠', '１', '\u{131}', '\u{0}'];
    for &l in &[15usize, 16, 17, 31, 32, 33, 47, 48, 49, 64, 65] {
        let mut pos: std::collections::BTreeSet<usize> = [0usize, 1, l / 2, l - 1].into_iter().collect();
        for b in [2usize, 8, 16, 32, 48] {
            if l > b {
                pos.extend([l - b - 1, l - b, (l - b + 1).min(l - 1)]);
            }
        }
        for &c in &offenders {
            for &p in &pos {
                let mut hs: Vec<char> = (0..l).map(|i| hexchars[(i * 7 + 3) % 22]).collect();
                hs[p] = c;
                hx.push(hs.iter().collect());
            }
        }
    }
    for &l in &[63usize, 64, 65, 127, 128, 129, 191, 192, 193, 256, 257] {
        let mut pos: std::collections::BTreeSet<usize> = [0usize, 1, l / 2, l - 1].into_iter().collect();
        for b in [8usize, 64, 128, 192] {
            if l > b {
                pos.extend([l - b - 1, l - b, (l - b + 1).min(l - 1)]);
            }
        }
        for &c in &offenders {
            for &p in &pos {
                let mut bs: Vec<char> = (0..l).map(|i| if (i * 5 + 1) % 3 == 0 { '1' } else { '0' }).collect();
                bs[p] = c;
                bin.push(bs.iter().collect());
            }
        }
    }
    let nbin = bin.len();
    let nhex = hx.len();
    for &k in ALL_KINDS {
        for (hex, strings) in [(false, &bin), (true, &hx)] {
            let p = crate::convs::par_over(cfg, strings, 512, &format!("C15 {} {}", if hex { "from_hex" } else { "from_binary" }, k.name()), |p, s| {
                p.transitions += 1;
                let n = s.chars().count();
                if s.is_empty() {
                    p.count("empty_string", 1);
                }
                if s.chars().any(|c| !c.is_ascii()) {
                    p.count("non_ascii_character", 1);
                }
                let valid = if hex { s.chars().all(|c| c.is_ascii_hexdigit()) } else { s.chars().all(|c| c == '0' || c == '1') };
                if !valid {
                    p.count("invalid_character", 1);
                }
                if k.cap().map_or(false, |c| n * if hex { 4 } else { 1 } > c) {
                    p.count("exceeds_fixed_capacity", 1);
                }
                if k == K::A && (n * if hex { 4 } else { 1 }).abs_diff(128) <= 4 {
                    p.count("at_inline_limit", 1);
                }
                let ms = chk_parse(p, seen_ref, k, s, hex);
                if ms.is_empty() && valid && n > 5 && !p.has_sample("parse") {
                    p.sample("parse", json!({"kind": k.name(), "fn": if hex { "from_hex" } else { "from_binary" }, "string": s}));
                }
                record(p, if hex { "from_hex" } else { "from_binary" }, k.name(), "-", vec![], &|| format!("{} {} {}", if hex { "from_hex" } else { "from_binary" }, k.name(), serde_json::to_string(s).unwrap()), ms);
            });
            part = part.merge(p);
        }
        let b = crate::convs::full_b(k, if q { 15 } else { 19 }, if q { 9 } else { 12 });
        let dom = standard_domain(&mut part, &seen, k, b, 2, q);
        let p = crate::convs::par_over(cfg, &dom, 64, &format!("C15 round trip {}", k.name()), |p, x| {
            let m = x.v.bits();
            p.transitions += 3;
            p.state(&x.v.raw());
            let ms = chk_parse_roundtrip(&x.v, &m);
            record(p, "parse_roundtrip", k.name(), "-", vflags(&x.v, x.p), &|| format!("parse_rt {}", x.show()), ms);
        });
        part = part.merge(p);
    }
    (part, json!({"binary_strings": nbin, "hex_strings": nhex, "rule": "all strings over {0,1} up to the bound, all strings over {0,1,2,x,é} up to 5, all hex strings up to 3 chars, strings over {0,f,A,g,space,é,fullwidth-1} up to 4, pattern strings at every capacity boundary and at 127/128/129 and 31/32/33 nibbles",
        "round_trip": "parse of {:b} {:x} {:X} output for the standard domain of every kind"}), true)
}

// ------------------------------------------------------------------------------------------------
// replay of text commands
// ------------------------------------------------------------------------------------------------

pub fn run_cmd(cmd: &str, _dbg: bool) -> Option<Result<Vec<Mis>, String>> {
    let mut t: Vec<&str> = cmd.split_whitespace().collect();
    if cmd.starts_with("from_binary ") || cmd.starts_with("from_hex ") {
        // the string operand is a JSON string literal and may contain blanks
        t = cmd.splitn(3, ' ').collect();
    }
    let seen = Seen::new();
    let mut part = Part::new();
    let vo = |s: &str| Vo::parse(s).ok_or_else(|| format!("cannot parse vector {}", s));
    let kind = |s: &str| K::parse(s).ok_or_else(|| format!("cannot parse kind {}", s));
    let big = |s: &str| s == "be";
    let r: Result<Vec<Mis>, String> = match (t.first().copied()?, t.len()) {
        ("from_nat", 4) => kind(t[1]).and_then(|k| Nat::parse(t[2]).ok_or("nat".to_string()).map(|n| chk_from_nat(&mut part, &seen, k, n, t[3] == "ref"))),
        ("to_nat", 4) => vo(t[1]).and_then(|x| NatTy::parse(t[2]).ok_or("type".to_string()).map(|ty| chk_to_nat(&x.v, &x.v.bits(), ty, t[3] == "val"))),
        ("from_slice", 3) | ("from_slice", 4) => kind(t[1]).and_then(|k| {
            let ty = NatTy::parse(t[2]).ok_or("type".to_string())?;
            let el: Vec<u128> = t.get(3).map_or(vec![], |s| s.split(',').filter_map(|e| e.parse().ok()).collect());
            Ok(chk_from_slice(&mut part, &seen, k, ty, &el))
        }),
        ("bit_conv", 1) => Ok(chk_bit_conv().1),
        ("convert", 4) => vo(t[1]).and_then(|x| kind(t[2]).map(|k| chk_convert(&mut part, &seen, &x.v, &x.v.bits(), k, t[3] == "val"))),
        ("new_inner", 2) => vo(t[1]).map(|x| chk_new_inner(&x.v)),
        ("to_vec", 3) => vo(t[1]).map(|x| chk_to_vec(&x.v, &x.v.bits(), big(t[2]))),
        ("roundtrip", 3) => vo(t[1]).map(|x| chk_roundtrip(&x.v, &x.v.bits(), big(t[2]))),
        ("write", 4) => vo(t[1]).and_then(|x| parse_script(t[3]).ok_or("script".to_string()).map(|s| chk_write(&x.v, &x.v.bits(), big(t[2]), &s))),
        ("from_bytes", 4) => kind(t[1]).and_then(|k| unhex(t[3]).ok_or("bytes".to_string()).map(|b| chk_from_bytes(&mut part, &seen, k, &b, big(t[2])))),
        ("read", 6) => kind(t[1]).and_then(|k| {
            let len: usize = t[3].parse().map_err(|_| "len".to_string())?;
            let data = unhex(t[4]).ok_or("bytes".to_string())?;
            let sc = parse_script(t[5]).ok_or("script".to_string())?;
            Ok(chk_read(&mut part, &seen, k, &data, len, big(t[2]), &sc))
        }),
        ("fmt", 2) => vo(t[1]).map(|x| chk_fmt(&x.v, &x.v.bits())),
        ("from_binary", 3) | ("from_hex", 3) => kind(t[1]).and_then(|k| {
            let s: String = serde_json::from_str(t[2]).map_err(|_| "string".to_string())?;
            Ok(chk_parse(&mut part, &seen, k, &s, t[0] == "from_hex"))
        }),
        ("parse_rt", 2) => vo(t[1]).map(|x| chk_parse_roundtrip(&x.v, &x.v.bits())),
        _ => return None,
    };
    Some(r)
}
