//! Engine `conv`: step-mode exhaustive sweeps of observers and conversions against the reference
//! model (absolute oracle) - properties C08..C16. Every check is also reachable as a text command
//! (`run_cmd`) so that a violation can be replayed without the sweep around it.

use crate::arith::{dom_full, dom_lat, PROVS_HIST, PROVS_PLAIN, PROVS_SPARE};
use crate::battery::{default_hash_any, hash_stream_any, Level};
use crate::common::*;
use crate::enumr;
use crate::report::{Part, Violation};
use bva::BitVector;
use mccore::act::{guard, Act};
use mccore::bits::Bits;
use mccore::conv;
use mccore::dispatch::{self, CmpObs};
use mccore::kinds::*;
use mccore::on_any;
use rayon::prelude::*;
use serde_json::{json, Value};
use std::sync::Arc;

pub struct Mis {
    pub what: String,
    pub expected: String,
    pub observed: String,
}

fn mis(what: &str, expected: impl std::fmt::Debug, observed: impl std::fmt::Debug) -> Mis {
    Mis { what: what.to_string(), expected: format!("{:?}", expected), observed: format!("{:?}", observed) }
}

pub fn vflags(x: &AnyBv, p: Prov) -> Vec<String> {
    let mut f = Vec::new();
    let n = x.len();
    if n == 0 {
        f.push("empty".to_string());
    }
    if n > x.kind().word() {
        f.push("multi_word".to_string());
    }
    if p.spare() {
        f.push("spare_capacity".to_string());
    }
    if x.kind() == K::A && x.raw().mode == 1 && n <= INLINE_LIMIT {
        f.push("dynamic_small".to_string());
    }
    f
}

/// record the mismatches of one check as violations
pub fn record(part: &mut Part, op: &str, lhs: &str, rhs: &str, flags: Vec<String>, cmd: &dyn Fn() -> String, ms: Vec<Mis>) {
    for m in ms {
        part.violation(Violation {
            op: op.to_string(),
            lhs: lhs.to_string(),
            rhs: rhs.to_string(),
            form: "-".into(),
            flags: flags.clone(),
            what: m.what,
            root: String::new(),
            ops: vec![],
            check: cmd(),
            expected: m.expected,
            observed: m.observed,
        });
    }
}

/// run a check under the panic guard; a panic is a mismatch of its own
fn guarded(f: impl FnOnce() -> Vec<Mis>) -> Vec<Mis> {
    match guard(f) {
        Ok(v) => v,
        Err(()) => vec![Mis { what: "panicked".into(), expected: "returns".into(), observed: "panicked".into() }],
    }
}

pub fn standard_domain(part: &mut Part, seen: &Seen, kind: K, b: usize, lat_runs: usize, short: bool) -> Vec<Vo> {
    let provs: &[Prov] = if kind == K::D || kind == K::A { PROVS_SPARE } else { PROVS_HIST };
    // provenance variants: up to 5 bits for Bvd/Bv (they multiply the domain), up to 11 bits for the
    // fixed kinds (identical representations are de-duplicated, so they cost only their construction)
    let pb = if kind == K::D || kind == K::A { 5 } else { 11 };
    let mut d = dom_full(part, seen, kind, b.min(pb), provs);
    let have: std::collections::HashSet<Raw> = d.iter().map(|x| x.v.raw()).collect();
    if b > pb {
        d.extend(dom_full(part, seen, kind, b, PROVS_PLAIN).into_iter().filter(|x| !have.contains(&x.v.raw())));
    }
    let lengths = if short { enumr::lat_lengths_short(kind) } else { enumr::lat_lengths(kind) };
    let have: std::collections::HashSet<Raw> = d.iter().map(|x| x.v.raw()).collect();
    d.extend(dom_lat(part, seen, kind, &lengths, lat_runs, provs).into_iter().filter(|x| !have.contains(&x.v.raw())));
    // word lattice at the top lengths: every word in {0,1,MAX,MAX-1,top bit,all but top}
    let mut have: std::collections::HashSet<Raw> = d.iter().map(|x| x.v.raw()).collect();
    let w = kind.word();
    let top = kind.cap().unwrap_or(4 * w);
    for l in [top, top - 1, top - w + 1] {
        for m in enumr::wordlat(l, w, !short) {
            for x in crate::arith::roots_of(part, seen, kind, &m, PROVS_PLAIN) {
                if have.insert(x.v.raw()) {
                    d.push(x);
                }
            }
        }
    }
    d
}

/// FULL bound for a kind: deep for the u8-word kinds, shallow otherwise
pub fn full_b(kind: K, deep: usize, shallow: usize) -> usize {
    if kind == K::F8x1 {
        8
    } else if kind == K::F8x2 {
        // every state of Bvf<u8,2> unless the caller asks for less than 12
        if deep >= 12 { 16 } else { deep }
    } else if kind.word() == 8 {
        deep
    } else if kind == K::F16x1 || kind == K::D || kind == K::A {
        shallow
    } else {
        shallow.min(8)
    }
}

pub fn par_over<T: Sync, F: Fn(&mut Part, &T) + Sync>(cfg: &Cfg, items: &[T], chunk: usize, label: &str, f: F) -> Part {
    let capped = std::sync::atomic::AtomicUsize::new(0);
    let nchunks = (items.len() + chunk - 1) / chunk.max(1);
    let mut p = items
        .par_chunks(chunk.max(1))
        .map(|c| {
            let mut p = Part::new();
            if cfg.out_of_time() {
                capped.fetch_add(1, std::sync::atomic::Ordering::Relaxed);
                return p;
            }
            for it in c {
                f(&mut p, it);
            }
            p
        })
        .reduce(Part::new, Part::merge);
    let nc = capped.load(std::sync::atomic::Ordering::Relaxed);
    if nc > 0 {
        p.caps_hit.push(format!("{}: wall-clock cap, {} of {} chunks not run", label, nc, nchunks));
    }
    p.partitions.push(json!({"partition": label, "items": items.len(), "complete": nc == 0}));
    p
}

// ------------------------------------------------------------------------------------------------
// C08 slicing and splitting
// ------------------------------------------------------------------------------------------------

fn chk_first_last(x: &AnyBv, m: &Bits) -> Vec<Mis> {
    guarded(|| {
        let mut v = Vec::new();
        let (f, l) = on_any!(x, y => (y.first().map(bit2b), y.last().map(bit2b)));
        if f != m.0.first().copied() {
            v.push(mis("first", m.0.first(), f));
        }
        if l != m.0.last().copied() {
            v.push(mis("last", m.0.last(), l));
        }
        v
    })
}

/// split_off(i) then append the high part back to the low part
fn chk_split_rejoin(x: &AnyBv, m: &Bits, i: usize) -> Vec<Mis> {
    guarded(|| {
        let mut v = Vec::new();
        let (low, obs) = mccore::act::apply(x.clone(), &Act::SplitOff(i));
        if let mccore::act::Obs::V1(high) = obs {
            let mut low = low;
            dispatch::append(&mut low, &high);
            let b = low.bits();
            if &b != m {
                v.push(mis("split_off;append", m.to_binstr(), b.to_binstr()));
            }
            // and through split(): (high, low)
            let (low2, obs2) = mccore::act::apply(x.clone(), &Act::Split(i));
            if let mccore::act::Obs::V1(high2) = obs2 {
                if low2.bits() != m.slice(0, i) || high2.bits() != m.slice(i, m.len()) {
                    v.push(mis("split", (m.slice(i, m.len()).to_binstr(), m.slice(0, i).to_binstr()), (high2.bits().to_binstr(), low2.bits().to_binstr())));
                }
            }
        } else {
            v.push(mis("split_off", "a vector", "nothing"));
        }
        v
    })
}

pub fn run_c08(cfg: &Cfg) -> (Part, Value, bool) {
    let q = cfg.quick();
    let seen = Seen::new();
    let mut part = Part::new();
    for r in ["slice_crosses_word_boundary", "split_at_word_boundary", "empty_slice", "source_dynamic_small"] {
        part.require(r);
    }
    let mut desc = Vec::new();
    for &k in ALL_KINDS {
        let b = full_b(k, if q { 15 } else { 19 }, if q { 9 } else { 12 });
        let dom = standard_domain(&mut part, &seen, k, b, if q { 2 } else { 3 }, q);
        desc.push(json!({"kind": k.name(), "full_bound": b.min(k.cap().unwrap_or(b)), "subjects": dom.len()}));
        let seen_ref = &seen;
        let p = par_over(cfg, &dom, 32, &format!("C08 {}", k.name()), |p, x| {
            let m = x.v.bits();
            let n = m.len();
            let w = k.word();
            let root = x.show();
            let org = Origin::Fixed { root: &root, prefix: &[] };
            p.state(&x.v.raw());
            let ix: Vec<usize> = if n <= 14 { (0..=n).collect() } else { enumr::boundary_indices(n, w) };
            if x.v.kind() == K::A && x.v.raw().mode == 1 && n <= INLINE_LIMIT {
                p.count("source_dynamic_small", 1);
            }
            for &s in &ix {
                for &e in ix.iter().filter(|e| **e >= s) {
                    if s / w != e.saturating_sub(1) / w && e > s {
                        p.count("slice_crosses_word_boundary", 1);
                    }
                    if s == e {
                        p.count("empty_slice", 1);
                    }
                    step(cfg, p, seen_ref, Level::Lite, &org, &x.v, &m, &Act::CopyRange(s, e));
                }
            }
            for &i in &ix {
                if i % w == 0 && i > 0 && i < n {
                    p.count("split_at_word_boundary", 1);
                }
                step(cfg, p, seen_ref, Level::Lite, &org, &x.v, &m, &Act::SplitOff(i));
                step(cfg, p, seen_ref, Level::Lite, &org, &x.v, &m, &Act::Split(i));
                p.transitions += 1;
                let ms = chk_split_rejoin(&x.v, &m, i);
                record(p, "split_rejoin", k.name(), "-", vflags(&x.v, x.p), &|| format!("split_rejoin {} {}", root, i), ms);
            }
            p.transitions += 1;
            let ms = chk_first_last(&x.v, &m);
            record(p, "first_last", k.name(), "-", vflags(&x.v, x.p), &|| format!("first_last {}", root), ms);
        });
        part = part.merge(p);
    }
    (part, json!({"domains": desc, "indices": "all (s,e) and split points for len <= 14, boundary index set beyond"}), true)
}

// ------------------------------------------------------------------------------------------------
// C09 equality and ordering
// ------------------------------------------------------------------------------------------------

fn chk_cmp(x: &AnyBv, y: &AnyBv) -> Vec<Mis> {
    guarded(|| {
        let mut v = Vec::new();
        let (mx, my) = (x.bits(), y.bits());
        let o = mx.cmp_num(&my);
        let got = dispatch::compare(x, y);
        if got != CmpObs::expected(o) {
            v.push(mis("compare", CmpObs::expected(o), got));
        }
        if x.kind() == y.kind() {
            let c = dispatch::ord_cmp(x, y);
            if c != Some(o) {
                v.push(mis("Ord::cmp", Some(o), c));
            }
        }
        v
    })
}

pub fn run_c09(cfg: &Cfg) -> (Part, Value, bool) {
    let q = cfg.quick();
    let seen = Seen::new();
    let mut part = Part::new();
    for r in ["equal_value_different_length", "differ_only_above_shorter_len", "operand_with_spare_capacity", "cross_type_pair"] {
        part.require(r);
    }
    // small domains: all values up to B bits, every kind pairing (19 x 19, both orders arise naturally)
    let b = if q { 5 } else { 7 };
    let mut small: Vec<Arc<Vec<Vo>>> = Vec::new();
    for &k in ALL_KINDS {
        let provs: &[Prov] = if k == K::D || k == K::A { PROVS_SPARE } else { PROVS_HIST };
        small.push(Arc::new(dom_full(&mut part, &seen, k, b, provs)));
    }
    let mut lat: Vec<Arc<Vec<Vo>>> = Vec::new();
    for &k in ALL_KINDS {
        let provs: &[Prov] = if k == K::D || k == K::A { &[Prov::Fresh, Prov::Reserve200, Prov::DynExact, Prov::ShrinkPush] } else { PROVS_HIST };
        let lengths = if q { enumr::lat_lengths_short(k) } else { enumr::lat_lengths(k) };
        let mut v = dom_lat(&mut part, &seen, k, &lengths, 2, provs);
        let w = k.word();
        let top = k.cap().unwrap_or(4 * w);
        for m in enumr::wordlat(top, w, false) {
            v.extend(crate::arith::roots_of(&mut part, &seen, k, &m, PROVS_PLAIN));
        }
        lat.push(Arc::new(v));
    }
    let mut jobs: Vec<(usize, usize, bool)> = Vec::new();
    for i in 0..ALL_KINDS.len() {
        for j in 0..ALL_KINDS.len() {
            jobs.push((i, j, false));
            jobs.push((i, j, true));
        }
    }
    let deep: Vec<(K, K, usize)> = if q { vec![(K::F8x2, K::F8x2, 8), (K::F8x2, K::D, 8), (K::F8x3, K::F16x1, 8), (K::A, K::D, 8)] } else { vec![(K::F8x2, K::F8x2, 11), (K::F8x2, K::F8x3, 11), (K::F8x3, K::F16x1, 11), (K::F8x2, K::D, 10), (K::D, K::A, 10), (K::A, K::F8x3, 10), (K::D, K::D, 10), (K::A, K::A, 10), (K::F16x1, K::F8x2, 10)] };
    let run_pair = |p: &mut Part, x: &Vo, y: &Vo| {
        p.transitions += 1;
        let (mx, my) = (x.v.bits(), y.v.bits());
        if mx.len() != my.len() && mx.cmp_num(&my) == std::cmp::Ordering::Equal {
            p.count("equal_value_different_length", 1);
        }
        let short = mx.len().min(my.len());
        if mx.slice(0, short) == my.slice(0, short) && mx.cmp_num(&my) != std::cmp::Ordering::Equal {
            p.count("differ_only_above_shorter_len", 1);
        }
        if x.p.spare() || y.p.spare() {
            p.count("operand_with_spare_capacity", 1);
        }
        if x.v.kind() != y.v.kind() {
            p.count("cross_type_pair", 1);
        }
        let ms = chk_cmp(&x.v, &y.v);
        if !ms.is_empty() {
            let mut fl = vflags(&x.v, x.p);
            for f in vflags(&y.v, y.p) {
                fl.push(format!("rhs_{}", f));
            }
            record(p, "cmp", x.v.kind().name(), y.v.kind().name(), fl, &|| format!("cmp {} {}", x.show(), y.show()), ms);
        } else if !p.has_sample("cmp") && mx.len() > 2 {
            p.sample("cmp", json!({"x": x.show(), "y": y.show(), "numeric": format!("{:?}", mx.cmp_num(&my))}));
        }
    };
    let done = jobs
        .par_iter()
        .map(|&(i, j, is_lat)| {
            let mut p = Part::new();
            if cfg.out_of_time() {
                p.caps_hit.push(format!("C09 pair {}x{} not run (wall-clock cap)", ALL_KINDS[i].name(), ALL_KINDS[j].name()));
                return p;
            }
            let (dx, dy) = if is_lat { (&lat[i], &lat[j]) } else { (&small[i], &small[j]) };
            // lattice pairs: every x against every third y (still covers all length pairs and both polarities)
            let stepy = 1;
            for x in dx.iter() {
                p.state(&x.v.raw());
                for y in dy.iter().step_by(stepy) {
                    run_pair(&mut p, x, y);
                }
            }
            p.partitions.push(json!({"partition": format!("{} {}x{}", if is_lat { "LAT" } else { "FULL" }, ALL_KINDS[i].name(), ALL_KINDS[j].name()), "complete": true}));
            p
        })
        .reduce(Part::new, Part::merge);
    part = part.merge(done);
    for (kx, ky, bb) in &deep {
        let dx = dom_full(&mut part, &seen, *kx, *bb, PROVS_PLAIN);
        let dy = Arc::new(dom_full(&mut part, &seen, *ky, *bb, PROVS_PLAIN));
        let p = par_over(cfg, &dx, 16, &format!("FULL-{} {}x{}", bb, kx.name(), ky.name()), |p, x| {
            p.state(&x.v.raw());
            for y in dy.iter() {
                run_pair(p, x, y);
            }
        });
        part = part.merge(p);
    }
    // triples (harness self-check of transitivity / totality on the real answers), FULL-3, F8x1 x D x A
    let t: Vec<Vo> = small[0].iter().filter(|v| v.v.len() <= 3).cloned().collect();
    let td: Vec<Vo> = small[ALL_KINDS.len() - 2].iter().filter(|v| v.v.len() <= 3 && v.p == Prov::Fresh).cloned().collect();
    let ta: Vec<Vo> = small[ALL_KINDS.len() - 1].iter().filter(|v| v.v.len() <= 3 && v.p == Prov::Fresh).cloned().collect();
    for a in &t {
        for b2 in &td {
            for c in &ta {
                part.transitions += 1;
                let ab = dispatch::compare(&a.v, &b2.v);
                let bc = dispatch::compare(&b2.v, &c.v);
                let ac = dispatch::compare(&a.v, &c.v);
                if ab.le && bc.le && !ac.le {
                    record(&mut part, "cmp_transitivity", "F8x1", "D,A", vec![], &|| format!("cmp {} {}", a.show(), c.show()), vec![mis("transitivity", "a<=c", "a>c")]);
                }
                if !(ab.lt || ab.eq || ab.gt) {
                    record(&mut part, "cmp_totality", "F8x1", "D", vec![], &|| format!("cmp {} {}", a.show(), b2.show()), vec![mis("totality", "one of < == >", "none")]);
                }
            }
        }
    }
    (part, json!({"full_bound_all_kind_pairs": b, "kind_pairs": ALL_KINDS.len() * ALL_KINDS.len(), "deep_pairs": deep.iter().map(|(a, b2, c)| format!("{}x{} B={}", a.name(), b2.name(), c)).collect::<Vec<_>>(),
        "lattice": "every kind pair, lattice lengths, <=2 runs, plus the word lattice ({0,1,MAX} per word) at the top length of both kinds", "operators": "== != < <= > >= partial_cmp, Ord::cmp for same type"}), true)
}

// ------------------------------------------------------------------------------------------------
// C10 Hash consistent with Eq
// ------------------------------------------------------------------------------------------------

fn hashset_finds(x: &AnyBv, y: &AnyBv) -> Option<bool> {
    macro_rules! same {
        ($($v:ident),+) => {
            match (x, y) {
                $( (AnyBv::$v(a), AnyBv::$v(b)) => {
                    let mut s = std::collections::HashSet::new();
                    s.insert(a.clone());
                    Some(s.contains(b))
                } )+
                _ => None,
            }
        };
    }
    same!(F8x1, F8x2, F8x3, F16x1, F16x2, F32x1, F32x2, F64x1, F64x2, F64x3, F64x4, FUx1, FUx2, F128x1, F128x2, D, A)
}

/// x and y hold numerically equal values and have the same type
fn chk_hasheq(x: &AnyBv, y: &AnyBv) -> Vec<Mis> {
    guarded(|| {
        let mut v = Vec::new();
        let c = dispatch::compare(x, y);
        if !c.eq {
            // Eq itself is C09's statement; without it this pair says nothing about Hash
            return v;
        }
        let (hx, hy) = (hash_stream_any(x), hash_stream_any(y));
        if hx != hy {
            v.push(mis("hash_stream", hx, hy));
        }
        let (dx, dy) = (default_hash_any(x), default_hash_any(y));
        if dx != dy {
            v.push(mis("DefaultHasher", dx, dy));
        }
        if hashset_finds(x, y) == Some(false) {
            v.push(mis("HashSet::contains", true, false));
        }
        v
    })
}

pub fn run_c10(cfg: &Cfg) -> (Part, Value, bool) {
    let q = cfg.quick();
    let seen = Seen::new();
    let mut part = Part::new();
    for r in ["equal_pairs_checked", "equal_pairs_different_length", "equal_pairs_different_storage"] {
        part.require(r);
    }
    let b = if q { 8 } else { 12 };
    let mut desc = Vec::new();
    for &k in ALL_KINDS {
        let w = k.word();
        let cap = k.cap();
        // values: all with at most B significant bits, plus lattice values
        let mut vals: Vec<Bits> = Vec::new();
        let bb = if k.word() == 8 || k == K::D || k == K::A { b } else { b.min(6) };
        for s in 0..=bb {
            for m in enumr::full(s) {
                if m.sig() == s {
                    vals.push(m);
                }
            }
        }
        for l in enumr::lat_lengths_short(k) {
            for m in enumr::lat(l, w, 2).into_iter().step_by(if q { 4 } else { 1 }) {
                let s = m.sig();
                vals.push(m.resized(s, false));
            }
        }
        vals.sort_by(|a, b2| a.0.cmp(&b2.0));
        vals.dedup();
        desc.push(json!({"kind": k.name(), "values": vals.len()}));
        let provs: &[Prov] = match k {
            K::D => &[Prov::Fresh, Prov::Reserve1, Prov::Reserve200, Prov::GrowShrink, Prov::ShrinkPush, Prov::SubWrap],
            K::A => &[Prov::Fresh, Prov::Reserve200, Prov::DynExact, Prov::GrowShrink, Prov::ShrinkPush, Prov::SubWrap],
            _ => PROVS_HIST,
        };
        let p = par_over(cfg, &vals, 8, &format!("C10 {}", k.name()), |p, v| {
            let s = v.sig();
            // lengths: sig .. sig+w+1 and the lattice lengths above
            let mut lens: std::collections::BTreeSet<usize> = (s..=s + w + 1).collect();
            lens.extend(enumr::lat_lengths_short(k).into_iter().filter(|l| *l >= s));
            let lens: Vec<usize> = lens.into_iter().filter(|l| cap.map_or(true, |c| *l <= c)).collect();
            let mut reps: Vec<Vo> = Vec::new();
            for &l in &lens {
                let m = v.resized(l, false);
                for &pv in provs {
                    if pv.applies(k, l) {
                        reps.push(Vo::new(k, &m, pv));
                    }
                }
            }
            for r in &reps {
                p.state(&r.v.raw());
            }
            // every representation against the shortest fresh one and against its neighbour
            for i in 0..reps.len() {
                for j in [0, i.saturating_sub(1), (i + 1) % reps.len()] {
                    if i == j {
                        continue;
                    }
                    p.transitions += 1;
                    p.count("equal_pairs_checked", 1);
                    if reps[i].v.len() != reps[j].v.len() {
                        p.count("equal_pairs_different_length", 1);
                    }
                    let (ri, rj) = (reps[i].v.raw(), reps[j].v.raw());
                    if ri.mode != rj.mode || ri.bytes.len() != rj.bytes.len() {
                        p.count("equal_pairs_different_storage", 1);
                    }
                    let ms = chk_hasheq(&reps[i].v, &reps[j].v);
                    if !ms.is_empty() {
                        let mut fl = vec![];
                        if reps[i].v.len() != reps[j].v.len() {
                            fl.push("different_length".to_string());
                        }
                        if ri.mode != rj.mode {
                            fl.push("different_storage_mode".to_string());
                        }
                        if ri.bytes.len() != rj.bytes.len() {
                            fl.push("different_capacity".to_string());
                        }
                        record(p, "hash", k.name(), k.name(), fl, &|| format!("hasheq {} {}", reps[i].show(), reps[j].show()), ms);
                    } else if !p.has_sample("hasheq") && reps[i].v.len() != reps[j].v.len() {
                        p.sample("hasheq", json!({"x": reps[i].show(), "y": reps[j].show(), "hash_stream_len": hash_stream_any(&reps[i].v).len()}));
                    }
                }
            }
        });
        part = part.merge(p);
    }
    (part, json!({"values": desc, "significant_bits_bound": b, "lengths": "sig(v)..=sig(v)+W+1 and lattice lengths; for Bvd/Bv every capacity / storage-mode provenance",
        "oracle": "identical call stream into a recording Hasher, identical DefaultHasher output, HashSet membership; only for pairs the implementation reports as =="}), true)
}

// ------------------------------------------------------------------------------------------------
// C16 bit-count queries
// ------------------------------------------------------------------------------------------------

fn chk_counts(x: &AnyBv, m: &Bits) -> Vec<Mis> {
    guarded(|| {
        let mut v = Vec::new();
        let n = m.len();
        let got = on_any!(x, y => (y.leading_zeros(), y.leading_ones(), y.trailing_zeros(), y.trailing_ones(), y.significant_bits(), y.is_zero()));
        let exp = (m.leading(false), m.leading(true), m.trailing(false), m.trailing(true), m.sig(), m.is_zero());
        if got != exp {
            v.push(mis("(lz,lo,tz,to,sig,is_zero)", exp, got));
        }
        if got.0 + got.4 != n {
            v.push(mis("leading_zeros+significant_bits==len", n, got.0 + got.4));
        }
        if got.5 != (got.4 == 0) {
            v.push(mis("is_zero<=>significant_bits==0", got.4 == 0, got.5));
        }
        v
    })
}

pub fn run_c16(cfg: &Cfg) -> (Part, Value, bool) {
    let q = cfg.quick();
    let seen = Seen::new();
    let mut part = Part::new();
    for r in ["run_ends_at_word_boundary", "uniform_vector", "empty_vector", "subject_with_spare_capacity"] {
        part.require(r);
    }
    let mut desc = Vec::new();
    for &k in ALL_KINDS {
        let b = match k {
            K::F8x1 => 8,
            K::F8x2 => 16,
            K::F8x3 => if q { 16 } else { 22 },
            _ => full_b(k, 0, if q { 10 } else { 14 }),
        };
        let dom = standard_domain(&mut part, &seen, k, b, 3, false);
        desc.push(json!({"kind": k.name(), "full_bound": b.min(k.cap().unwrap_or(b)), "subjects": dom.len()}));
        let p = par_over(cfg, &dom, 256, &format!("C16 {}", k.name()), |p, x| {
            let m = x.v.bits();
            let n = m.len();
            let w = k.word();
            p.state(&x.v.raw());
            p.transitions += 1;
            if n == 0 {
                p.count("empty_vector", 1);
            } else {
                let lz = m.leading(false);
                let lo = m.leading(true);
                if lz == n || lo == n {
                    p.count("uniform_vector", 1);
                }
                if n > w && ((lz > 0 && (n - lz) % w == 0) || (lo > 0 && (n - lo) % w == 0) || (m.trailing(false) % w == 0 && m.trailing(false) > 0 && m.trailing(false) < n)) {
                    p.count("run_ends_at_word_boundary", 1);
                }
            }
            if x.p.spare() {
                p.count("subject_with_spare_capacity", 1);
            }
            let ms = chk_counts(&x.v, &m);
            if ms.is_empty() {
                if !p.has_sample("counts") && n > 9 {
                    p.sample("counts", json!({"x": x.show(), "lz": m.leading(false), "lo": m.leading(true), "tz": m.trailing(false), "to": m.trailing(true), "sig": m.sig()}));
                }
            }
            record(p, "counts", k.name(), "-", vflags(&x.v, x.p), &|| format!("counts {}", x.show()), ms);
        });
        part = part.merge(p);
    }
    (part, json!({"domains": desc, "lattice": "all lattice lengths, <= 3 runs"}), true)
}

// ------------------------------------------------------------------------------------------------
// replay of text commands
// ------------------------------------------------------------------------------------------------

/// Execute one check given as text. None if the command is not known here.
pub fn run_cmd(cmd: &str, dbg: bool) -> Option<Result<Vec<Mis>, String>> {
    let t: Vec<&str> = cmd.split_whitespace().collect();
    let vo = |s: &str| Vo::parse(s).ok_or_else(|| format!("cannot parse vector {}", s));
    let us = |s: &str| s.parse::<usize>().map_err(|_| format!("cannot parse number {}", s));
    let r: Result<Vec<Mis>, String> = match (t.first().copied()?, t.len()) {
        ("first_last", 2) => vo(t[1]).map(|x| chk_first_last(&x.v, &x.v.bits())),
        ("split_rejoin", 3) => vo(t[1]).and_then(|x| us(t[2]).map(|i| chk_split_rejoin(&x.v, &x.v.bits(), i))),
        ("cmp", 3) => vo(t[1]).and_then(|x| vo(t[2]).map(|y| chk_cmp(&x.v, &y.v))),
        ("hasheq", 3) => vo(t[1]).and_then(|x| vo(t[2]).map(|y| chk_hasheq(&x.v, &y.v))),
        ("counts", 2) => vo(t[1]).map(|x| chk_counts(&x.v, &x.v.bits())),
        _ => return crate::convs2::run_cmd(cmd, dbg),
    };
    Some(r)
}
