pub mod arith;
pub mod battery;
pub mod common;
pub mod enumr;
pub mod hist;
pub mod props;
pub mod report;
pub mod selftest;
