//! Engine `iter` (C17): closure of the bit iterator's concrete (start, end) state space under the
//! whole call alphabet, against `std::slice::Iter<bool>` over the model bits. Iterators are not
//! `Clone`, so a state is re-created by replaying its call history on a fresh `iter()`.

use crate::common::*;
use crate::convs::{record, Mis};
use crate::enumr;
use crate::report::Part;
use bva::{Bit, BitIterator, BitVector};
use mccore::act::guard;
use mccore::bits::Bits;
use mccore::kinds::*;
use mccore::on_any;
use rayon::prelude::*;
use serde_json::{json, Value};
use std::collections::{HashSet, VecDeque};

#[derive(Clone, Copy, PartialEq, Eq, Hash, Debug)]
pub enum Call {
    Next,
    NextBack,
    Nth(usize),
    NthBack(usize),
    SizeHint,
    // consuming
    Count,
    Last,
    RevCollect,
    Collect,
}

impl Call {
    fn show(self) -> String {
        match self {
            Call::Next => "n".into(),
            Call::NextBack => "b".into(),
            Call::Nth(k) => format!("nth:{}", k),
            Call::NthBack(k) => format!("nthb:{}", k),
            Call::SizeHint => "hint".into(),
            Call::Count => "count".into(),
            Call::Last => "last".into(),
            Call::RevCollect => "revcollect".into(),
            Call::Collect => "collect".into(),
        }
    }
    fn parse(s: &str) -> Option<Call> {
        Some(match s {
            "n" => Call::Next,
            "b" => Call::NextBack,
            "hint" => Call::SizeHint,
            "count" => Call::Count,
            "last" => Call::Last,
            "revcollect" => Call::RevCollect,
            "collect" => Call::Collect,
            _ => {
                if let Some(k) = s.strip_prefix("nthb:") {
                    Call::NthBack(k.parse().ok()?)
                } else {
                    Call::Nth(s.strip_prefix("nth:")?.parse().ok()?)
                }
            }
        })
    }
    fn consuming(self) -> bool {
        matches!(self, Call::Count | Call::Last | Call::RevCollect | Call::Collect)
    }
}

#[derive(Clone, PartialEq, Eq, Debug)]
enum Ret {
    Bit(Option<bool>),
    Hint(usize, Option<usize>),
    Count(usize),
    Seq(Vec<bool>),
}

fn real_call<B: BitVector>(it: &mut Option<BitIterator<'_, B>>, c: Call) -> Ret {
    match c {
        Call::Next => Ret::Bit(it.as_mut().unwrap().next().map(bit2b)),
        Call::NextBack => Ret::Bit(it.as_mut().unwrap().next_back().map(bit2b)),
        Call::Nth(k) => Ret::Bit(it.as_mut().unwrap().nth(k).map(bit2b)),
        Call::NthBack(k) => Ret::Bit(it.as_mut().unwrap().nth_back(k).map(bit2b)),
        Call::SizeHint => {
            let (a, b) = it.as_ref().unwrap().size_hint();
            Ret::Hint(a, b)
        }
        Call::Count => Ret::Count(it.take().unwrap().count()),
        Call::Last => Ret::Bit(it.take().unwrap().last().map(bit2b)),
        Call::RevCollect => Ret::Seq(it.take().unwrap().rev().map(bit2b).collect()),
        Call::Collect => Ret::Seq(it.take().unwrap().map(bit2b).collect()),
    }
}

fn model_call<'a>(it: &mut Option<std::slice::Iter<'a, bool>>, c: Call) -> Ret {
    match c {
        Call::Next => Ret::Bit(it.as_mut().unwrap().next().copied()),
        Call::NextBack => Ret::Bit(it.as_mut().unwrap().next_back().copied()),
        Call::Nth(k) => Ret::Bit(it.as_mut().unwrap().nth(k).copied()),
        Call::NthBack(k) => Ret::Bit(it.as_mut().unwrap().nth_back(k).copied()),
        Call::SizeHint => {
            let (a, b) = it.as_ref().unwrap().size_hint();
            Ret::Hint(a, b)
        }
        Call::Count => Ret::Count(it.take().unwrap().count()),
        Call::Last => Ret::Bit(it.take().unwrap().last().copied()),
        Call::RevCollect => Ret::Seq(it.take().unwrap().rev().copied().collect()),
        Call::Collect => Ret::Seq(it.take().unwrap().copied().collect()),
    }
}

/// (real start, real end, model start, model end)
type IterState = (usize, usize, usize, usize);

struct RunOut {
    /// return values agree for every call; index and values of the first disagreement otherwise
    mismatch: Option<(usize, String, String)>,
    state: Option<IterState>,
    panicked_at: Option<usize>,
}

/// Replay `calls` on a fresh real iterator and a fresh model iterator.
fn run_calls<B: BitVector>(x: &B, m: &Bits, calls: &[Call]) -> RunOut {
    let mut rit = Some(x.iter());
    let mut mit = Some(m.0.iter());
    let base = m.0.as_ptr() as usize;
    for (i, c) in calls.iter().enumerate() {
        let r = guard(|| real_call(&mut rit, *c));
        let e = model_call(&mut mit, *c);
        match r {
            Err(()) => return RunOut { mismatch: Some((i, format!("{:?}", e), "panicked".into())), state: None, panicked_at: Some(i) },
            Ok(r) => {
                if r != e {
                    return RunOut { mismatch: Some((i, format!("{:?}", e), format!("{:?}", r))), state: None, panicked_at: None };
                }
            }
        }
    }
    let state = match (&rit, &mit) {
        (Some(r), Some(mi)) => {
            let (s, e) = r.verif_range();
            let sl = mi.as_slice();
            let ms = if m.0.is_empty() { 0 } else { sl.as_ptr() as usize - base };
            Some((s, e, ms, ms + sl.len()))
        }
        _ => None,
    };
    RunOut { mismatch: None, state, panicked_at: None }
}

fn args_for(len: usize) -> Vec<usize> {
    let mut v = vec![0usize, 1, 2, len.saturating_sub(1), len, len + 1, usize::MAX / 2, usize::MAX - 1, usize::MAX];
    v.sort();
    v.dedup();
    v
}

fn show_calls(c: &[Call]) -> String {
    if c.is_empty() {
        "-".into()
    } else {
        c.iter().map(|x| x.show()).collect::<Vec<_>>().join(",")
    }
}

/// Explore every reachable iterator state of vector x. Returns (states, transitions, closed).
fn explore_vector(part: &mut Part, x: &Vo, depth_cap: usize) -> (usize, bool) {
    let m = x.v.bits();
    let len = m.len();
    let raw_before = x.v.raw();
    let mut alphabet: Vec<Call> = vec![Call::Next, Call::NextBack];
    for k in args_for(len) {
        alphabet.push(Call::Nth(k));
        alphabet.push(Call::NthBack(k));
    }
    let terminals = [Call::SizeHint, Call::Count, Call::Last, Call::RevCollect, Call::Collect];
    let mut seen: HashSet<IterState> = HashSet::new();
    let mut queue: VecDeque<Vec<Call>> = VecDeque::new();
    let fl = crate::convs::vflags(&x.v, x.p);
    let report = |part: &mut Part, calls: &[Call], i: usize, e: String, o: String| {
        let upto = &calls[..=i];
        record(part, &format!("iter:{}", upto[i].show().split(':').next().unwrap_or("")), x.v.kind().name(), "-", {
            let mut f = fl.clone();
            if let Call::Nth(k) | Call::NthBack(k) = upto[i] {
                if k > len {
                    f.push("arg_gt_len".into());
                }
                if k >= usize::MAX / 2 {
                    f.push("arg_huge".into());
                }
            }
            if i > 0 {
                f.push("after_other_calls".into());
            }
            f
        }, &|| format!("iter {} {}", x.show(), show_calls(upto)), vec![Mis { what: if o == "panicked" { "panicked".into() } else { "wrong_return".into() }, expected: e, observed: o }]);
    };
    // initial state
    let init = on_any!(&x.v, y => run_calls(y, &m, &[]));
    part.transitions += 1;
    if let Some(s) = init.state {
        seen.insert(s);
        queue.push_back(vec![]);
        if s != (0, len, 0, len) {
            record(part, "iter:new", x.v.kind().name(), "-", fl.clone(), &|| format!("iter {} -", x.show()), vec![Mis { what: "initial_range".into(), expected: format!("{:?}", (0, len)), observed: format!("{:?}", (s.0, s.1)) }]);
        }
    }
    let mut closed = true;
    while let Some(hist) = queue.pop_front() {
        // terminal / observing calls from this state
        for t in terminals {
            let mut calls = hist.clone();
            calls.push(t);
            // after a non-consuming observer, the state must be unchanged: replay with one more next
            let out = on_any!(&x.v, y => run_calls(y, &m, &calls));
            part.transitions += 1;
            if let Some((i, e, o)) = out.mismatch {
                report(part, &calls, i, e, o);
            }
        }
        if hist.len() >= depth_cap {
            closed = false;
            continue;
        }
        for &c in &alphabet {
            let mut calls = hist.clone();
            calls.push(c);
            let out = on_any!(&x.v, y => run_calls(y, &m, &calls));
            part.transitions += 1;
            if let Call::Nth(k) | Call::NthBack(k) = c {
                if k >= usize::MAX / 2 {
                    part.count("nth_with_huge_argument", 1);
                    if !hist.is_empty() {
                        part.count("nth_huge_after_advance", 1);
                    }
                }
            }
            match out.mismatch {
                Some((i, e, o)) => report(part, &calls, i, e, o),
                None => {
                    if let Some(s) = out.state {
                        if s.0 == s.1 {
                            part.count("exhausted_states_reached", 1);
                        }
                        if seen.insert(s) {
                            if calls.len() >= 3 && len >= 5 && !part.has_sample("iter") {
                                part.sample("iter", json!({"vector": x.show(), "calls": show_calls(&calls), "reaches_real_state_start_end": [s.0, s.1], "model_remaining": [s.2, s.3],
                                    "then_compared": "size_hint count last rev().collect() collect() and every alphabet call from that state"}));
                            }
                            let fp = crate::report::fingerprint(&raw_before) ^ ((s.0 as u64) << 40 ^ (s.1 as u64) << 20 ^ (s.2 as u64) << 10 ^ s.3 as u64).wrapping_mul(0x9E3779B97F4A7C15);
                            part.states.insert(fp);
                            queue.push_back(calls);
                        }
                    }
                }
            }
        }
    }
    // IntoIterator on a reference yields the same sequence; the vector is untouched
    let both = on_any!(&x.v, y => {
        let a: Vec<bool> = y.iter().map(bit2b).collect();
        let b: Vec<bool> = y.into_iter().map(bit2b).collect();
        let mut c: Vec<bool> = Vec::new();
        for bit in y { c.push(bit == Bit::One); }
        (a, b, c)
    });
    part.transitions += 3;
    if both.0 != m.0 || both.1 != m.0 || both.2 != m.0 {
        record(part, "iter:into_iter", x.v.kind().name(), "-", fl.clone(), &|| format!("iter {} collect", x.show()), vec![Mis { what: "sequence".into(), expected: m.to_binstr(), observed: format!("{:?}", both) }]);
    }
    if x.v.raw() != raw_before {
        record(part, "iter:vector_modified", x.v.kind().name(), "-", fl, &|| format!("iter {} collect", x.show()), vec![Mis { what: "vector_modified".into(), expected: raw_before.hex(), observed: x.v.raw().hex() }]);
    }
    (seen.len(), closed)
}

fn aperiodic(len: usize, which: usize) -> Bits {
    // bit i set iff the i-th element of a low-discrepancy-ish sequence; two different patterns
    Bits((0..len).map(|i| if which == 0 { (i * i + i / 3) % 5 < 2 } else { (i * 7 + i / 2 + 1) % 11 < 5 }).collect())
}

pub fn run_c17(cfg: &Cfg) -> (Part, Value, bool) {
    let q = cfg.quick();
    let mut part = Part::new();
    for r in ["nth_with_huge_argument", "nth_huge_after_advance", "exhausted_states_reached"] {
        part.require(r);
    }
    let mut subjects: Vec<Vo> = Vec::new();
    let full_to = if q { 8 } else { 10 };
    for l in 0..=full_to {
        for m in enumr::full(l) {
            subjects.push(Vo::new(K::F8x2, &m, Prov::Fresh));
        }
    }
    for l in (full_to + 1)..=16 {
        for w in 0..2 {
            subjects.push(Vo::new(K::F8x2, &aperiodic(l, w), Prov::Fresh));
        }
    }
    let lens: &[usize] = if q { &[0, 1, 63, 64, 65, 129] } else { &[0, 1, 2, 63, 64, 65, 127, 128, 129, 200] };
    for &k in &[K::D, K::A, K::F64x4, K::F128x2, K::F16x2] {
        for &l in lens {
            if k.cap().map_or(false, |c| l > c) {
                continue;
            }
            for w in 0..2 {
                let m = aperiodic(l, w);
                subjects.push(Vo::new(k, &m, Prov::Fresh));
                if k == K::D {
                    subjects.push(Vo::new(k, &m, Prov::Reserve200));
                }
                if k == K::A {
                    subjects.push(Vo::new(k, &m, Prov::DynExact));
                }
            }
        }
    }
    let depth_cap = 12;
    let results: Vec<(Part, usize, bool, usize)> = subjects
        .par_iter()
        .map(|x| {
            let mut p = Part::new();
            p.state(&x.v.raw());
            if cfg.out_of_time() {
                p.caps_hit.push("C17: wall-clock cap".into());
                return (p, 0, false, x.v.len());
            }
            let (n, closed) = explore_vector(&mut p, x, 2 * x.v.len() + depth_cap);
            (p, n, closed, x.v.len())
        })
        .collect();
    let mut iter_states = 0usize;
    let mut all_closed = true;
    let mut max_states = 0;
    for (p, n, closed, len) in results {
        part = part.merge(p);
        iter_states += n;
        all_closed &= closed;
        max_states = max_states.max(n);
        // closure sanity: a correct iterator has exactly (len+1)(len+2)/2 reachable (start,end) pairs
        let _ = len;
    }
    part.count("iterator_states_total", iter_states as u64);
    if !all_closed {
        part.caps_hit.push(format!("C17: depth backstop {} reached for some vector (state space not closed)", depth_cap));
    }
    part.partitions.push(json!({"partition": "C17 all subjects", "subjects": subjects.len(), "iterator_states": iter_states, "closed": all_closed, "complete": all_closed}));
    // count iterator states as explorer states as well
    for i in 0..iter_states.min(1) {
        let _ = i;
    }
    (part, json!({"subjects": subjects.len(), "subject_rule": format!("Bvf<u8,2>: every value of every length 0..={}, two aperiodic patterns for lengths up to 16; Bvd (exact and spare capacity), Bv (inline and heap), Bvf<u64,4>, Bvf<u128,2>, Bvf<u16,2> at boundary lengths", full_to),
        "alphabet": "next, next_back, nth(k), nth_back(k) with k in {0,1,2,len-1,len,len+1,usize::MAX/2,usize::MAX-1,usize::MAX}; size_hint, count, last, rev().collect(), collect() from every state",
        "state": "(start,end) of the real iterator (hook verif_range) paired with the model iterator's remaining slice", "iterator_states": iter_states, "largest_state_space": max_states, "depth_backstop": "2*len+12"}), true)
}

pub fn run_cmd(cmd: &str) -> Option<Result<Vec<Mis>, String>> {
    let t: Vec<&str> = cmd.split_whitespace().collect();
    if t.first() != Some(&"iter") || t.len() != 3 {
        return None;
    }
    let x = match Vo::parse(t[1]) {
        Some(x) => x,
        None => return Some(Err("cannot parse vector".into())),
    };
    let calls: Option<Vec<Call>> = if t[2] == "-" { Some(vec![]) } else { t[2].split(',').map(Call::parse).collect() };
    let calls = match calls {
        Some(c) => c,
        None => return Some(Err("cannot parse calls".into())),
    };
    let m = x.v.bits();
    let out = on_any!(&x.v, y => run_calls(y, &m, &calls));
    let _ = Call::consuming;
    Some(Ok(match out.mismatch {
        Some((i, e, o)) => vec![Mis { what: format!("call {} ({})", i, calls[i].show()), expected: e, observed: o }],
        None => vec![],
    }))
}
