use mc::common::{Cfg, Tier};
use mc::props;
use std::time::Instant;

fn usage() -> ! {
    eprintln!("usage: mc run <Cxx> <quick|thorough> <out.json> | mc replay <file.json> | mc selftest");
    std::process::exit(2);
}

fn main() {
    let args: Vec<String> = std::env::args().collect();
    if args.len() < 2 {
        usage();
    }
    mccore::act::install_panic_hook();
    let dbg = cfg!(debug_assertions);
    let profile: &'static str = if dbg { "dbg" } else { "rel" };
    match args[1].as_str() {
        "run" => {
            if args.len() != 5 {
                usage();
            }
            let tier = match args[3].as_str() {
                "quick" => Tier::Quick,
                "thorough" => Tier::Thorough,
                _ => usage(),
            };
            let budget_s: f64 = std::env::var("MC_BUDGET_S").ok().and_then(|s| s.parse().ok()).unwrap_or(if tier == Tier::Quick { 600.0 } else { 3600.0 });
            let cfg = Cfg { prop: args[2].clone(), tier, profile, dbg, budget_s, start: Instant::now() };
            // oracle self-test: a failure is a machinery error, never a verdict
            if let Err(e) = mc::selftest::run(tier == Tier::Quick) {
                eprintln!("MACHINERY: oracle self-test failed: {}", e);
                std::process::exit(2);
            }
            let t0 = Instant::now();
            let (part, bounds, exhaustive) = match props::run(&cfg) {
                Some(r) => r,
                None => {
                    eprintln!("MACHINERY: unknown property {}", cfg.prop);
                    std::process::exit(2);
                }
            };
            let j = part.to_json(&cfg.prop, &args[3], profile, t0.elapsed().as_secs_f64(), bounds, exhaustive);
            std::fs::write(&args[4], serde_json::to_string_pretty(&j).unwrap()).unwrap();
            eprintln!(
                "[{} {} {}] states={} transitions={} classes={} wall={:.1}s",
                cfg.prop,
                args[3],
                profile,
                part.states.len(),
                part.transitions,
                part.classes.len(),
                t0.elapsed().as_secs_f64()
            );
        }
        "replay" => {
            if args.len() != 3 {
                usage();
            }
            let text = std::fs::read_to_string(&args[2]).unwrap_or_else(|e| {
                eprintln!("cannot read {}: {}", args[2], e);
                std::process::exit(2)
            });
            let j: serde_json::Value = serde_json::from_str(&text).unwrap_or_else(|e| {
                eprintln!("cannot parse {}: {}", args[2], e);
                std::process::exit(2)
            });
            let want = j["profile"].as_str().unwrap_or("");
            if want != profile {
                // the driver runs the replay in both profiles; only the matching one decides
                println!("(replay recorded in profile {}, this binary is {}: skipped)", want, profile);
                std::process::exit(3);
            }
            std::process::exit(props::replay(&j, profile, dbg));
        }
        "selftest" => match mc::selftest::run(false) {
            Ok(n) => println!("selftest ok: {} comparisons", n),
            Err(e) => {
                eprintln!("selftest FAILED: {}", e);
                std::process::exit(2);
            }
        },
        _ => usage(),
    }
}
