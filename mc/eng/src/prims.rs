//! C01, primitive sweep: the hand-copied per-word-type primitives `mask`, `cadd`, `csub`, `wmul`
//! (crate-private, reached through the `verif-hooks` re-export) against exact integer arithmetic.
//! Complete for u8; the native-integer lattice cubed for the wider types.

use crate::common::Cfg;
use crate::convs::{record, Mis};
use crate::enumr;
use crate::report::Part;
use bva::verif_hooks::Integer;
use mccore::act::guard;
use mccore::kinds::*;
use num_bigint::{BigInt, BigUint};
use rayon::prelude::*;
use serde_json::json;

fn big(v: u128) -> BigInt {
    BigInt::from(BigUint::from(v))
}
fn low(v: &BigInt, bits: usize) -> u128 {
    let m: BigInt = (BigInt::from(1) << bits) - 1;
    let r: BigInt = v & &m;
    let (_, digits) = r.to_u64_digits();
    let mut out = 0u128;
    for (i, d) in digits.iter().enumerate().take(2) {
        out |= (*d as u128) << (64 * i);
    }
    out
}

/// expected (new value, carry out) of `x.cadd(y, c)`: x + y + c split at the word size
fn exp_cadd(bits: usize, x: u128, y: u128, c: u128) -> (u128, u128) {
    let s = big(x) + big(y) + big(c);
    (low(&s, bits), low(&(s >> bits), bits))
}
/// expected (new value, borrow out) of `x.csub(y, c)`: x - y - c, borrow = how many times 2^W
/// had to be added to make it non-negative
fn exp_csub(bits: usize, x: u128, y: u128, c: u128) -> (u128, u128) {
    let d = big(x) - big(y) - big(c);
    let w: BigInt = BigInt::from(1) << bits;
    if d >= BigInt::from(0) {
        (low(&d, bits), 0)
    } else {
        let neg = -d.clone();
        let borrow: BigInt = (&neg + &w - 1) / &w;
        let v = d + &borrow * &w;
        (low(&v, bits), low(&borrow, bits))
    }
}
fn exp_wmul(bits: usize, x: u128, y: u128) -> (u128, u128) {
    let p = big(x) * big(y);
    (low(&p, bits), low(&(p >> bits), bits))
}
fn exp_mask(bits: usize, len: usize) -> u128 {
    if len >= bits {
        if bits == 128 {
            u128::MAX
        } else {
            (1u128 << bits) - 1
        }
    } else {
        (1u128 << len) - 1
    }
}

macro_rules! prim_fns {
    ($name:ident, $t:ty) => {
        mod $name {
            use super::*;
            pub fn cadd(x: u128, y: u128, c: u128) -> Result<(u128, u128), ()> {
                guard(|| {
                    let mut v = x as $t;
                    let co = Integer::cadd(&mut v, y as $t, c as $t);
                    (v as u128, co as u128)
                })
            }
            pub fn csub(x: u128, y: u128, c: u128) -> Result<(u128, u128), ()> {
                guard(|| {
                    let mut v = x as $t;
                    let co = Integer::csub(&mut v, y as $t, c as $t);
                    (v as u128, co as u128)
                })
            }
            pub fn wmul(x: u128, y: u128) -> Result<(u128, u128), ()> {
                guard(|| {
                    let (lo, hi) = Integer::wmul(&(x as $t), y as $t);
                    (lo as u128, hi as u128)
                })
            }
            pub fn mask(len: usize) -> Result<u128, ()> {
                guard(|| <$t as Integer>::mask(len) as u128)
            }
        }
    };
}
prim_fns!(p8, u8);
prim_fns!(p16, u16);
prim_fns!(p32, u32);
prim_fns!(p64, u64);
prim_fns!(p128, u128);
prim_fns!(pus, usize);

fn call(ty: NatTy, prim: &str, x: u128, y: u128, c: u128) -> Result<(u128, u128), ()> {
    macro_rules! d {
        ($m:ident) => {
            match prim {
                "cadd" => $m::cadd(x, y, c),
                "csub" => $m::csub(x, y, c),
                "wmul" => $m::wmul(x, y),
                _ => $m::mask(x as usize).map(|v| (v, 0)),
            }
        };
    }
    match ty {
        NatTy::U8 => d!(p8),
        NatTy::U16 => d!(p16),
        NatTy::U32 => d!(p32),
        NatTy::U64 => d!(p64),
        NatTy::U128 => d!(p128),
        NatTy::Us => d!(pus),
    }
}

/// In the crate the carry handed to `csub` is always 0 or 1; a larger one is outside its contract.
fn check(ty: NatTy, prim: &str, x: u128, y: u128, c: u128) -> Vec<Mis> {
    let bits = ty.bits();
    let exp = match prim {
        "cadd" => exp_cadd(bits, x, y, c),
        "csub" => exp_csub(bits, x, y, c),
        "wmul" => exp_wmul(bits, x, y),
        _ => (exp_mask(bits, x as usize), 0),
    };
    match call(ty, prim, x, y, c) {
        Err(()) => vec![Mis { what: "panicked".into(), expected: format!("{:?}", exp), observed: "panicked".into() }],
        Ok(got) => {
            if got != exp {
                vec![Mis { what: "wrong_result".into(), expected: format!("{:?}", exp), observed: format!("{:?}", got) }]
            } else {
                vec![]
            }
        }
    }
}

pub fn run(cfg: &Cfg) -> Part {
    let mut jobs: Vec<(NatTy, &'static str, Vec<u128>)> = Vec::new();
    for &ty in ALL_NAT {
        let vals: Vec<u128> = if ty == NatTy::U8 { (0..=255).collect() } else { enumr::ul(ty).into_iter().map(|n| n.val()).collect() };
        for prim in ["cadd", "csub", "wmul", "mask"] {
            jobs.push((ty, prim, vals.clone()));
        }
    }
    let parts: Vec<Part> = jobs
        .par_iter()
        .map(|(ty, prim, vals)| {
            let mut p = Part::new();
            if cfg.out_of_time() {
                p.caps_hit.push("primitive sweep: wall-clock cap".into());
                return p;
            }
            let mut n = 0u64;
            let mut go = |p: &mut Part, x: u128, y: u128, c: u128| {
                n += 1;
                let ms = check(*ty, prim, x, y, c);
                if !ms.is_empty() {
                    record(p, &format!("prim:{}", prim), ty.name(), "-", vec![], &|| format!("prim {} {} {} {} {}", prim, ty.name(), x, y, c), ms);
                }
            };
            match *prim {
                "mask" => {
                    for len in 0..=(ty.bits() + 4) {
                        go(&mut p, len as u128, 0, 0);
                    }
                    for len in [255usize, 256, 1 << 16, usize::MAX / 2, usize::MAX] {
                        go(&mut p, len as u128, 0, 0);
                    }
                }
                "wmul" => {
                    for &x in vals {
                        for &y in vals {
                            go(&mut p, x, y, 0);
                        }
                    }
                    p.count("wmul_full_width_products", 1);
                }
                "cadd" => {
                    for &x in vals {
                        for &y in vals {
                            for &c in vals {
                                go(&mut p, x, y, c);
                            }
                        }
                    }
                    p.count("cadd_with_word_valued_carry", 1);
                }
                _ => {
                    for &x in vals {
                        for &y in vals {
                            for c in [0u128, 1] {
                                go(&mut p, x, y, c);
                            }
                        }
                    }
                }
            }
            p.transitions += n;
            p.partitions.push(json!({"partition": format!("PRIM {} {}", prim, ty.name()), "cases": n, "values": vals.len(), "complete": true}));
            if prim == &"wmul" {
                let m = ty.max();
                p.sample(&format!("prim wmul {}", ty.name()), json!({"primitive": "wmul", "type": ty.name(), "x": m.to_string(), "y": m.to_string(), "expected_lo_hi": format!("{:?}", exp_wmul(ty.bits(), m, m))}));
            }
            p
        })
        .collect();
    let mut part = Part::new();
    part.require("wmul_full_width_products");
    part.require("cadd_with_word_valued_carry");
    for p in parts {
        part = part.merge(p);
    }
    part
}

pub fn run_cmd(cmd: &str) -> Option<Result<Vec<Mis>, String>> {
    let t: Vec<&str> = cmd.split_whitespace().collect();
    if t.first() != Some(&"prim") || t.len() != 6 {
        return None;
    }
    let ty = NatTy::parse(t[2])?;
    let x: u128 = t[3].parse().ok()?;
    let y: u128 = t[4].parse().ok()?;
    let c: u128 = t[5].parse().ok()?;
    Some(Ok(check(ty, t[1], x, y, c)))
}
