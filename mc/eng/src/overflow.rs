//! C19: fixed-capacity overflow and bad arguments are signalled, never silently absorbed.
//! Step-mode over every fixed kind, lengths at and around the capacity, every growing operation
//! with amounts landing just below, at and beyond the capacity; constructors likewise.

use crate::battery::Level;
use crate::common::*;
use crate::convs::{record, Mis};
use crate::enumr;
use crate::hist::lat_small;
use crate::report::Part;
use bva::{Bit, BitVector, Endianness};
use mccore::act::{guard, Act};
use mccore::bits::Bits;
use mccore::kinds::*;
use mccore::{on_any, on_kind};
use rayon::prelude::*;
use serde_json::{json, Value};

fn pattern(l: usize) -> Bits {
    Bits((0..l).map(|i| (0xA5u8 >> (i % 8)) & 1 == 1 || i + 1 == l).collect())
}

/// outcome of a constructor call: Ok(len, capacity) / Err(text) / panicked
fn ctor(k: K, name: &str, l: usize) -> Result<Result<(usize, usize, Bits), String>, ()> {
    guard(|| {
        on_kind!(k, T => {
            let r: Result<T, String> = match name {
                "zeros" => Ok(T::zeros(l)),
                "ones" => Ok(T::ones(l)),
                "repeat0" => Ok(T::repeat(Bit::Zero, l)),
                "repeat1" => Ok(T::repeat(Bit::One, l)),
                "with_capacity" => Ok(T::with_capacity(l)),
                "from_bytes" => T::from_bytes(vec![0xA5u8; l], Endianness::Little).map_err(|e| format!("{:?}", e)),
                "from_binary" => T::from_binary(pattern(l).to_binstr()).map_err(|e| format!("{:?}", e)),
                "from_hex" => T::from_hex("a".repeat(l)).map_err(|e| format!("{:?}", e)),
                "read" => {
                    let data = vec![0x5Au8; (l + 7) / 8];
                    T::read(&mut std::io::Cursor::new(data), l, Endianness::Big).map_err(|e| format!("io:{:?}", e.kind()))
                }
                "collect" => Ok((0..l).map(|i| if i % 3 == 0 { Bit::One } else { Bit::Zero }).collect::<T>()),
                _ => unreachable!(),
            };
            r.map(|y| (y.len(), BitVector::capacity(&y), read_bits_t(&y)))
        })
    })
}

/// expected length in bits of what constructor `name` builds for argument l
fn ctor_bits(name: &str, l: usize) -> usize {
    match name {
        "from_bytes" => l * 8,
        "from_hex" => l * 4,
        "with_capacity" => 0,
        _ => l,
    }
}

fn chk_ctor(k: K, name: &str, l: usize) -> Vec<Mis> {
    let c = k.cap().unwrap();
    let bits = ctor_bits(name, l);
    let fits = bits <= c;
    let r = ctor(k, name, l);
    let mut v = Vec::new();
    let m = |w: &str, e: &str, o: String| Mis { what: w.into(), expected: e.into(), observed: o };
    match (name, fits, r) {
        (_, true, Ok(Ok((len, cap, _)))) => {
            if len != bits || len > cap {
                v.push(m("wrong_len", &format!("len={}", bits), format!("len={} capacity={}", len, cap)));
            }
        }
        (_, true, other) => v.push(m("fits_but_failed", "Ok", format!("{:?}", other.map(|r| r.map(|t| (t.0, t.1)))))),
        // documented: zeros / ones / repeat / collect beyond the capacity panic
        ("zeros" | "ones" | "repeat0" | "repeat1" | "collect", false, Err(())) => {}
        // documented: from_* / read beyond the capacity return an error
        ("from_bytes" | "from_binary" | "from_hex" | "read", false, Ok(Err(_))) => {}
        // with_capacity beyond a fixed capacity: not specified by the property, but the result
        // must still not be over-long
        ("with_capacity", false, Ok(Ok((len, cap, _)))) if len <= cap => {}
        ("with_capacity", false, Err(())) => {}
        (_, false, other) => v.push(m(
            "overflow_not_signalled",
            if matches!(name, "from_bytes" | "from_binary" | "from_hex" | "read") { "Err" } else { "panic" },
            format!("{:?}", other.map(|r| r.map(|t| format!("len={} capacity={}", t.0, t.1)))),
        )),
    }
    v
}

fn chk_get_oob(x: &AnyBv, i: usize, dbg: bool) -> Vec<Mis> {
    if !dbg {
        return vec![];
    }
    let r = guard(|| on_any!(x, y => y.get(i)));
    if r.is_ok() && i >= x.len() {
        vec![Mis { what: "no_panic".into(), expected: "panic (debug assertions)".into(), observed: format!("returned {:?}", r) }]
    } else {
        vec![]
    }
}

pub fn run_c19(cfg: &Cfg) -> (Part, Value, bool) {
    let q = cfg.quick();
    let mut part = Part::new();
    for r in ["growth_beyond_capacity_attempted", "growth_exactly_to_capacity", "constructor_beyond_capacity", "required_panics_observed"] {
        part.require(r);
    }
    let seen = Seen::new();
    let seen_ref = &seen;
    let kinds: Vec<K> = FIXED_KINDS.to_vec();
    let results: Vec<Part> = kinds
        .par_iter()
        .map(|&k| {
            let mut p = Part::new();
            let c = k.cap().unwrap();
            let w = k.word();
            let mut lens: std::collections::BTreeSet<usize> = [0, c.saturating_sub(w), c.saturating_sub(2), c - 1, c].into_iter().collect();
            if !q {
                lens.extend([1, w.min(c), c / 2]);
            }
            let targets: Vec<usize> = vec![c - 1, c, c + 1, c + w, c + w + 1];
            // constructors
            for name in ["zeros", "ones", "repeat0", "repeat1", "with_capacity", "from_binary", "read", "collect"] {
                for &t in &targets {
                    p.transitions += 1;
                    if t > c {
                        p.count("constructor_beyond_capacity", 1);
                    }
                    let ms = chk_ctor(k, name, t);
                    record(&mut p, &format!("ctor:{}", name), k.name(), "-", vec![if t > c { "beyond_capacity".into() } else { "fits".into() }], &|| format!("ctor {} {} {}", k.name(), name, t), ms);
                }
            }
            for l in [c / 8 - 1, c / 8, c / 8 + 1, c / 8 + w / 8 + 1] {
                p.transitions += 1;
                let ms = chk_ctor(k, "from_bytes", l);
                record(&mut p, "ctor:from_bytes", k.name(), "-", vec![], &|| format!("ctor {} from_bytes {}", k.name(), l), ms);
            }
            for l in [c / 4 - 1, c / 4, c / 4 + 1, c / 4 + w / 4 + 1] {
                p.transitions += 1;
                let ms = chk_ctor(k, "from_hex", l);
                record(&mut p, "ctor:from_hex", k.name(), "-", vec![], &|| format!("ctor {} from_hex {}", k.name(), l), ms);
            }
            // TryFrom from other implementations / integers / slices beyond the capacity
            for &t in &targets {
                for sk in ALL_KINDS {
                    if *sk == k || sk.cap().map_or(false, |sc| t > sc) {
                        continue;
                    }
                    for m in lat_small(t) {
                        let src = Vo::new(*sk, &m, Prov::Fresh);
                        for by_value in [false, true] {
                            if !mccore::conv::has_conv(*sk, k, by_value) {
                                continue;
                            }
                            p.transitions += 1;
                            if t > c {
                                p.count("constructor_beyond_capacity", 1);
                            }
                            let r = guard(|| mccore::conv::convert(&src.v, k, by_value));
                            let ms = match (t <= c, r) {
                                (true, Ok(Ok(y))) if y.len() == t && y.bits() == m => vec![],
                                (false, Ok(Err(e))) if e == "NotEnoughCapacity" => vec![],
                                (fits, other) => vec![Mis {
                                    what: if fits { "fits_but_failed".into() } else { "overflow_not_signalled".into() },
                                    expected: if fits { format!("Ok(len={})", t) } else { "Err(NotEnoughCapacity)".into() },
                                    observed: format!("{:?}", other.map(|r| r.map(|y| format!("len={} capacity={}", y.len(), y.capacity())))),
                                }],
                            };
                            record(&mut p, "ctor:try_from_vector", k.name(), sk.name(), vec![if t > c { "beyond_capacity".into() } else { "fits".into() }], &|| format!("convert {} {} {}", src.show(), k.name(), if by_value { "val" } else { "ref" }), ms);
                        }
                    }
                }
            }
            for ty in ALL_NAT {
                for n in enumr::ul(*ty) {
                    p.transitions += 1;
                    let sig = Bits::from_u128(128, n.val()).sig();
                    let r = guard(|| mccore::conv::from_nat(k, n, false));
                    let ok = match (&r, sig <= c) {
                        (Ok(Ok(y)), true) => y.len() <= c && y.bits().low_u128() == n.val(),
                        (Ok(Err(e)), false) => e == "NotEnoughCapacity",
                        _ => false,
                    };
                    if sig > c {
                        p.count("constructor_beyond_capacity", 1);
                    }
                    if !ok {
                        record(&mut p, "ctor:try_from_int", k.name(), ty.name(), vec![], &|| format!("from_nat {} {} val", k.name(), n.show()), vec![Mis { what: "overflow_not_signalled".into(), expected: if sig <= c { "Ok".into() } else { "Err(NotEnoughCapacity)".into() }, observed: format!("{:?}", r.map(|r| r.map(|y| format!("len={}", y.len())))) }]);
                    }
                }
                for cnt in [c / ty.bits(), c / ty.bits() + 1] {
                    p.transitions += 1;
                    let el: Vec<u128> = (0..cnt).map(|i| if i % 2 == 0 { 0 } else { ty.max() }).collect();
                    let r = guard(|| mccore::conv::from_slice(k, *ty, &el));
                    let fits = cnt * ty.bits() <= c;
                    let ok = match (&r, fits) {
                        (Ok(Ok(y)), true) => y.len() == cnt * ty.bits(),
                        (Ok(Err(e)), false) => e == "NotEnoughCapacity",
                        _ => false,
                    };
                    if !ok {
                        record(&mut p, "ctor:try_from_slice", k.name(), ty.name(), vec![], &|| format!("from_slice {} {} {}", k.name(), ty.name(), el.iter().map(|e| e.to_string()).collect::<Vec<_>>().join(",")), vec![Mis { what: "overflow_not_signalled".into(), expected: if fits { "Ok".into() } else { "Err(NotEnoughCapacity)".into() }, observed: format!("{:?}", r.map(|r| r.map(|y| format!("len={}", y.len())))) }]);
                    }
                }
            }
            // mutators
            for &n in &lens {
                let mut vals = lat_small(n);
                if k.word() == 8 && n <= 10 {
                    vals = enumr::full(n).collect();
                }
                for m in vals {
                    let x = Vo::new(k, &m, Prov::Fresh);
                    let root = x.show();
                    let org = Origin::Fixed { root: &root, prefix: &[] };
                    p.state(&x.v.raw());
                    let mut acts: Vec<Act> = vec![Act::Push(true), Act::Push(false)];
                    for &t in &targets {
                        acts.push(Act::Resize(t, false));
                        acts.push(Act::Resize(t, true));
                        acts.push(Act::SignExtend(t));
                        if t >= n {
                            let d = t - n;
                            for ok in [K::D, K::A, K::F64x4, k] {
                                if ok.cap().map_or(true, |cc| d <= cc) {
                                    let o = Vo::new(ok, &pattern(d), Prov::Fresh);
                                    acts.push(Act::Append(o.clone()));
                                    acts.push(Act::Prepend(o.clone()));
                                    acts.push(Act::Insert(n / 2, o.clone()));
                                    acts.push(Act::Insert(n, o));
                                }
                            }
                            acts.push(Act::Extend(pattern(d)));
                            acts.push(Act::ExtendNoHint(pattern(d)));
                        }
                    }
                    // out-of-range indices (must panic with debug assertions; unspecified otherwise)
                    for i in [n, n + 1, c, c + 1, usize::MAX] {
                        acts.push(Act::Set(i, true));
                        acts.push(Act::SplitOff(i));
                        acts.push(Act::CopyRange(0, i));
                        acts.push(Act::CopyRange(i, i));
                        p.transitions += 1;
                        let ms = chk_get_oob(&x.v, i, cfg.dbg);
                        record(&mut p, "get", k.name(), "-", vec!["index_out_of_range".into()], &|| format!("get_oob {} {}", root, i), ms);
                    }
                    for a in &acts {
                        let newlen = match a {
                            Act::Push(_) => Some(n + 1),
                            Act::Resize(t, _) => Some(*t),
                            Act::SignExtend(t) => Some((*t).max(n)),
                            Act::Append(o) | Act::Prepend(o) | Act::Insert(_, o) => Some(n + o.v.len()),
                            Act::Extend(b) | Act::ExtendNoHint(b) => Some(n + b.len()),
                            _ => None,
                        };
                        if let Some(nl) = newlen {
                            if nl > c {
                                p.count("growth_beyond_capacity_attempted", 1);
                            } else if nl == c && nl > n {
                                p.count("growth_exactly_to_capacity", 1);
                            }
                        }
                        step(cfg, &mut p, seen_ref, Level::Lite, &org, &x.v, &m, a);
                    }
                }
            }
            p.partitions.push(json!({"partition": format!("C19 {}", k.name()), "capacity": c, "lengths": lens, "targets": targets, "complete": true}));
            p
        })
        .collect();
    for p in results {
        part = part.merge(p);
    }
    (part, json!({"kinds": kinds.iter().map(|k| k.name()).collect::<Vec<_>>(), "lengths": "0, C-W, C-2, C-1, C (+1, W, C/2 in thorough)", "targets": "C-1, C, C+1, C+W, C+W+1",
        "operations": "zeros ones repeat with_capacity from_bytes from_binary from_hex read collect; push resize sign_extend append prepend insert extend; out-of-range get/set/copy_range/split_off (debug-assertion build only)",
        "oracle": "fits: behaves as the list model; does not fit: constructors panic / return the documented Err, mutators panic in both profiles; never len > capacity"}), true)
}

pub fn run_cmd(cmd: &str, dbg: bool) -> Option<Result<Vec<Mis>, String>> {
    let t: Vec<&str> = cmd.split_whitespace().collect();
    match (t.first().copied()?, t.len()) {
        ("ctor", 4) => {
            let k = K::parse(t[1])?;
            let l: usize = t[3].parse().ok()?;
            let names = ["zeros", "ones", "repeat0", "repeat1", "with_capacity", "from_bytes", "from_binary", "from_hex", "read", "collect"];
            let name = names.iter().find(|n| **n == t[2])?;
            Some(Ok(chk_ctor(k, name, l)))
        }
        ("get_oob", 3) => {
            let x = Vo::parse(t[1])?;
            let i: usize = t[2].parse().ok()?;
            Some(Ok(chk_get_oob(&x.v, i, dbg)))
        }
        _ => None,
    }
}
