//! Engine `hist`: explicit-state breadth-first exploration of operation histories on the real
//! representation. Closure mode (run to fixpoint) for the u8-word fixed vectors, depth mode from
//! boundary roots for everything else. Properties C03, C07, C18.

use crate::arith::{roots_of, PROVS_ALL, PROVS_PLAIN};
use crate::battery::Level;
use crate::common::*;
use crate::enumr;
use crate::report::Part;
use mccore::act::{Act, Rb};
use mccore::bits::Bits;
use mccore::dispatch::{BinOp, Form, ALL_BINOPS};
use mccore::kinds::*;
use rayon::prelude::*;
use serde_json::{json, Value};
use std::collections::{BTreeSet, HashSet};
use std::sync::Arc;

#[derive(Clone, Copy, PartialEq, Eq, Debug)]
pub enum Idx {
    /// every index / length 0..=n
    All,
    /// the boundary index set of the lattice
    Boundary,
    /// a handful of indices: ends, middle, the word boundaries next to n (and the inline limit)
    Narrow,
}

/// Description of an operation alphabet.
#[derive(Clone)]
pub struct AlphaSpec {
    /// never generate an action whose result would be longer than this
    pub max_len: usize,
    pub idx: Idx,
    /// vector operands for append / prepend / insert / binary operators
    pub vec_ops: Arc<Vec<Vo>>,
    /// native operands for binary operators
    pub nat_ops: Vec<Nat>,
    pub edits: bool,
    pub inserts: bool,
    pub shifts: bool,
    pub rots: bool,
    pub not: bool,
    pub bins: Vec<BinOp>,
    pub splits: bool,
    pub capacity: bool,
    pub rebuilds: bool,
    pub extend_bits: usize,
    /// resize / truncate / sign_extend targets beyond the index set
    pub extra_lengths: Vec<usize>,
}

fn idxs(spec: &AlphaSpec, n: usize, w: usize) -> Vec<usize> {
    match spec.idx {
        Idx::All => (0..=n).collect(),
        Idx::Boundary => enumr::boundary_indices(n, w),
        Idx::Narrow => narrow(n, w).into_iter().filter(|i| *i <= n).collect(),
    }
}

/// ends, and the word boundary at or below n with its neighbours
fn narrow(n: usize, w: usize) -> Vec<usize> {
    let mut t: BTreeSet<usize> = BTreeSet::new();
    t.extend([0, 1, n.saturating_sub(1), n]);
    let k = n / w;
    if k > 0 {
        t.extend([k * w - 1, k * w, k * w + 1]);
    }
    t.into_iter().collect()
}

/// The actions enabled in a state of kind `kind` and length `n`.
pub fn alphabet(spec: &AlphaSpec, kind: K, n: usize) -> Vec<Act> {
    let w = kind.word();
    let maxl = kind.cap().map_or(spec.max_len, |c| c.min(spec.max_len));
    let mut v: Vec<Act> = Vec::new();
    let ix = idxs(spec, n, w);
    if spec.edits {
        if n < maxl {
            v.push(Act::Push(false));
            v.push(Act::Push(true));
        }
        v.push(Act::Pop);
        for &i in ix.iter().filter(|i| **i < n) {
            v.push(Act::Set(i, false));
            v.push(Act::Set(i, true));
        }
        let mut targets: BTreeSet<usize> = BTreeSet::new();
        match spec.idx {
            Idx::All => targets.extend(0..=maxl),
            Idx::Boundary => {
                targets.extend(ix.iter().copied());
                targets.extend(enumr::boundary_indices(maxl, w));
                targets.extend([n.saturating_sub(1), n + 1, n + w, n + w + 1]);
            }
            Idx::Narrow => {
                targets.extend(ix.iter().copied());
                let k = n / w + 1;
                targets.extend([n + 1, k * w - 1, k * w, k * w + 1, n + w + 1]);
                if kind == K::A {
                    targets.extend([127, 128, 129]);
                }
            }
        }
        targets.extend(spec.extra_lengths.iter().copied());
        for &l in targets.iter().filter(|l| **l <= maxl) {
            v.push(Act::Resize(l, false));
            v.push(Act::Resize(l, true));
            if l < n {
                v.push(Act::Truncate(l));
            }
            if l > n {
                v.push(Act::SignExtend(l));
            }
        }
        v.push(Act::Truncate(n + 1));
        v.push(Act::SignExtend(n.saturating_sub(1)));
        for o in spec.vec_ops.iter() {
            let ol = o.v.len();
            if n + ol <= maxl {
                v.push(Act::Append(o.clone()));
                v.push(Act::Prepend(o.clone()));
                if spec.inserts {
                    for &i in &ix {
                        v.push(Act::Insert(i, o.clone()));
                    }
                }
            }
        }
        for l in 0..=spec.extend_bits {
            if n + l <= maxl {
                for b in enumr::full(l) {
                    v.push(Act::ExtendNoHint(b.clone()));
                    v.push(Act::Extend(b));
                }
            }
        }
        v.push(Act::Rebuild(Rb::Collect));
        v.push(Act::Rebuild(Rb::CollectNoHint));
        // growth across the next word boundary / the inline limit from iterators with and without size hint
        for target in [(n / w + 1) * w + 1, 129, 200] {
            if target > n && target <= maxl && target - n <= 140 {
                let bits = Bits((0..target - n).map(|i| i % 3 != 1).collect());
                v.push(Act::ExtendNoHint(bits.clone()));
                v.push(Act::Extend(bits));
            }
        }
    }
    if spec.shifts {
        v.push(Act::ShlIn(false));
        v.push(Act::ShlIn(true));
        v.push(Act::ShrIn(false));
        v.push(Act::ShrIn(true));
        let amts: Vec<Nat> = if spec.idx == Idx::Narrow {
            let mut a: Vec<Nat> = narrow(n, w).into_iter().map(|k| Nat::Us(k)).collect();
            a.extend([Nat::U8(3), Nat::U32(n as u32 + 1), Nat::U128(1 << 64), Nat::U64(u64::MAX)]);
            a
        } else {
            enumr::amounts_narrowest(n, w)
        };
        for amt in amts {
            // one representative form per storage implementation body
            v.push(Act::Shift { left: true, amt, form: Form::AsgVal });
            v.push(Act::Shift { left: false, amt, form: Form::AsgVal });
            if kind == K::D || kind == K::A {
                v.push(Act::Shift { left: true, amt, form: Form::RefVal });
                v.push(Act::Shift { left: false, amt, form: Form::RefVal });
            }
        }
    }
    if spec.rots {
        for &k in &ix {
            v.push(Act::Rotl(k));
            v.push(Act::Rotr(k));
        }
    }
    if spec.not {
        v.push(Act::Not { by_ref: false });
        if kind == K::D || kind == K::A {
            v.push(Act::Not { by_ref: true });
        }
    }
    for &op in &spec.bins {
        for o in spec.vec_ops.iter() {
            v.push(Act::Bin { op, form: Form::AsgRef, rhs: Opd::V(o.clone()) });
        }
        for nat in &spec.nat_ops {
            v.push(Act::Bin { op, form: Form::AsgVal, rhs: Opd::N(*nat) });
        }
    }
    if spec.splits {
        for &i in &ix {
            v.push(Act::SplitOff(i));
            v.push(Act::Split(i));
        }
        for &s in &ix {
            for &e in ix.iter().filter(|e| **e >= s) {
                if spec.idx == Idx::Narrow && !(s == 0 || e == n || e == s + 1) {
                    continue;
                }
                v.push(Act::TakeRange(s, e));
            }
        }
    }
    if spec.capacity && (kind == K::D || kind == K::A) {
        for k in [0usize, 1, 63, 64, 65, 200] {
            v.push(Act::Reserve(k));
        }
        v.push(Act::ShrinkToFit);
    }
    if spec.rebuilds {
        v.push(Act::CloneIt);
        for t in [K::D, K::A, K::F64x4, K::F8x3, K::F128x2, K::F16x2] {
            if t != kind && t.cap().map_or(true, |c| n <= c) {
                v.push(Act::Rebuild(Rb::Via(t)));
            }
        }
        for big in [false, true] {
            if (n + 7) / 8 * 8 <= kind.cap().unwrap_or(usize::MAX) {
                v.push(Act::Rebuild(Rb::Bytes(big)));
            }
            v.push(Act::Rebuild(Rb::ReadWrite(big)));
        }
        v.push(Act::Rebuild(Rb::NewInner));
        v.push(Act::Rebuild(Rb::BinStr));
        if !spec.edits {
            v.push(Act::Rebuild(Rb::Collect));
        }
    }
    v
}

struct Node {
    parent: u32,
    how: String,
}

pub struct ExploreOut {
    pub states: usize,
    pub levels: usize,
    pub closed: bool,
}

/// Breadth-first exploration from `roots`. `depth = None` runs to the fixpoint (closure).
#[allow(clippy::too_many_arguments)]
pub fn explore(cfg: &Cfg, part: &mut Part, seen: &Seen, label: &str, roots: Vec<Vo>, spec: &AlphaSpec, depth: Option<usize>, state_cap: usize, level: Level) -> ExploreOut {
    let kind = match roots.first() {
        Some(r) => r.v.kind(),
        None => return ExploreOut { states: 0, levels: 0, closed: true },
    };
    let maxl = kind.cap().map_or(spec.max_len, |c| c.min(spec.max_len));
    // alphabets by length, built once
    let alphas: Vec<Vec<Act>> = (0..=maxl + 1).map(|n| if n <= maxl { alphabet(spec, kind, n) } else { Vec::new() }).collect();
    let mut nodes: Vec<Node> = Vec::new();
    let mut visited: HashSet<Raw> = HashSet::new();
    let mut frontier: Vec<(u32, AnyBv)> = Vec::new();
    for r in roots {
        let raw = r.v.raw();
        if visited.insert(raw.clone()) {
            part.state(&raw);
            nodes.push(Node { parent: u32::MAX, how: r.show() });
            frontier.push((nodes.len() as u32 - 1, r.v));
        }
    }
    let mut levels = 0;
    let mut closed = false;
    let mut capped = false;
    let mut transitions_here: u64 = 0;
    loop {
        if frontier.is_empty() {
            closed = true;
            break;
        }
        if let Some(d) = depth {
            if levels >= d {
                break;
            }
        }
        if cfg.out_of_time() || visited.len() > state_cap {
            capped = true;
            break;
        }
        let nodes_ref = &nodes;
        let visited_ref = &visited;
        let results: Vec<(Part, Vec<(Raw, AnyBv, u32, String)>)> = frontier
            .par_chunks(32)
            .map(|chunk| {
                let mut p = Part::new();
                let mut newv: Vec<(Raw, AnyBv, u32, String)> = Vec::new();
                let mut local: HashSet<Raw> = HashSet::new();
                for (idx, x) in chunk {
                    let m = x.bits();
                    let n = m.len();
                    if n > maxl {
                        continue;
                    }
                    let path = || -> (String, Vec<String>) {
                        let mut ops: Vec<String> = Vec::new();
                        let mut i = *idx;
                        loop {
                            let nd = &nodes_ref[i as usize];
                            if nd.parent == u32::MAX {
                                ops.reverse();
                                return (nd.how.clone(), ops);
                            }
                            ops.push(nd.how.clone());
                            i = nd.parent;
                        }
                    };
                    let org = Origin::Lazy(&path);
                    for a in &alphas[n] {
                        let out = step(cfg, &mut p, seen, level, &org, x, &m, a);
                        if let Some(y) = out.next {
                            if y.len() > maxl {
                                continue;
                            }
                            let r = y.raw();
                            if !visited_ref.contains(&r) && !local.contains(&r) {
                                local.insert(r.clone());
                                newv.push((r, y, *idx, a.show()));
                            }
                        }
                    }
                }
                (p, newv)
            })
            .collect();
        let mut next: Vec<(u32, AnyBv)> = Vec::new();
        for (p, newv) in results {
            transitions_here += p.transitions;
            let old = std::mem::take(part);
            *part = old.merge(p);
            for (r, y, parent, how) in newv {
                if visited.insert(r) {
                    nodes.push(Node { parent, how });
                    next.push((nodes.len() as u32 - 1, y));
                }
            }
        }
        frontier = next;
        levels += 1;
    }
    if capped {
        part.caps_hit.push(format!("{}: stopped at level {} with {} states (wall-clock or state cap)", label, levels, visited.len()));
    }
    part.partitions.push(json!({
        "partition": label, "kind": kind.name(), "mode": if depth.is_none() { "closure" } else { "depth" },
        "depth_bound": depth, "levels_completed": levels, "states": visited.len(), "transitions": transitions_here,
        "closed_under_alphabet": closed, "actions_per_state_at_max_len": alphas[maxl.min(alphas.len() - 1)].len(),
        "complete": !capped,
    }));
    ExploreOut { states: visited.len(), levels, closed }
}

// ------------------------------------------------------------------------------------------------
// operand pools
// ------------------------------------------------------------------------------------------------

/// all values of all lengths <= b for each kind (fresh provenance), as operands
pub fn pool_full(kinds: &[K], b: usize) -> Vec<Vo> {
    let mut v = Vec::new();
    for &k in kinds {
        let bb = k.cap().map_or(b, |c| c.min(b));
        for m in enumr::full_upto(bb) {
            v.push(Vo::new(k, &m, Prov::Fresh));
        }
    }
    v
}

/// a few lattice operands of the given lengths for each kind
pub fn pool_lat(kinds: &[K], lengths: &[usize]) -> Vec<Vo> {
    let mut v = Vec::new();
    for &k in kinds {
        for &l in lengths {
            if k.cap().map_or(false, |c| l > c) {
                continue;
            }
            let vals = enumr::lat(l, k.word(), 2);
            // zeros, ones, and two mixed patterns
            let picks: Vec<&Bits> = {
                let mut p: Vec<&Bits> = vec![];
                if let Some(x) = vals.first() {
                    p.push(x);
                }
                if let Some(x) = vals.last() {
                    p.push(x);
                }
                if vals.len() > 4 {
                    p.push(&vals[vals.len() / 3]);
                    p.push(&vals[2 * vals.len() / 3]);
                }
                p
            };
            for m in picks {
                v.push(Vo::new(k, m, Prov::Fresh));
            }
        }
    }
    v
}

fn nat_small() -> Vec<Nat> {
    vec![Nat::U8(0), Nat::U8(1), Nat::U8(0xA5), Nat::U8(255), Nat::U16(0x8001), Nat::U32(u32::MAX), Nat::U64(u64::MAX), Nat::U64(1 << 63), Nat::U128(u128::MAX), Nat::U128(1 << 64), Nat::Us(usize::MAX)]
}

fn spec_full(vec_ops: Vec<Vo>, max_len: usize, idx: Idx) -> AlphaSpec {
    AlphaSpec {
        max_len,
        idx,
        vec_ops: Arc::new(vec_ops),
        nat_ops: nat_small(),
        edits: true,
        inserts: true,
        shifts: true,
        rots: true,
        not: true,
        bins: ALL_BINOPS.to_vec(),
        splits: true,
        capacity: true,
        rebuilds: true,
        extend_bits: 2,
        extra_lengths: vec![],
    }
}

fn spec_edits(vec_ops: Vec<Vo>, max_len: usize, idx: Idx, extend_bits: usize) -> AlphaSpec {
    AlphaSpec {
        max_len,
        idx,
        vec_ops: Arc::new(vec_ops),
        nat_ops: vec![],
        edits: true,
        inserts: true,
        shifts: false,
        rots: false,
        not: false,
        bins: vec![],
        splits: false,
        capacity: false,
        rebuilds: false,
        extend_bits,
        extra_lengths: vec![],
    }
}

fn roots_for(part: &mut Part, seen: &Seen, kind: K, lengths: &[usize], runs: usize, provs: &[Prov]) -> Vec<Vo> {
    let mut v = Vec::new();
    for &l in lengths {
        if kind.cap().map_or(false, |c| l > c) {
            continue;
        }
        for m in enumr::lat(l, kind.word(), runs) {
            v.extend(roots_of(part, seen, kind, &m, provs));
        }
    }
    v
}

/// zeros, ones, a filler pattern, top bit only, bottom bit only
pub fn lat_small(l: usize) -> Vec<Bits> {
    let mut s: BTreeSet<Vec<bool>> = BTreeSet::new();
    s.insert(vec![false; l]);
    s.insert(vec![true; l]);
    s.insert((0..l).map(|i| (0xA5u8 >> (i % 8)) & 1 == 1).collect());
    s.insert((0..l).map(|i| i + 1 == l).collect());
    s.insert((0..l).map(|i| i == 0).collect());
    s.into_iter().map(Bits).collect()
}

fn roots_small(part: &mut Part, seen: &Seen, kind: K, lengths: &[usize], provs: &[Prov]) -> Vec<Vo> {
    let mut v = Vec::new();
    for &l in lengths {
        if kind.cap().map_or(false, |c| l > c) {
            continue;
        }
        for m in lat_small(l) {
            v.extend(roots_of(part, seen, kind, &m, provs));
        }
    }
    v
}

/// one operand per (kind, length) pair: an 0xA5 filler pattern with the top bit set
fn pool_small(spec: &[(K, usize)]) -> Vec<Vo> {
    spec.iter()
        .filter(|(k, l)| k.cap().map_or(true, |c| *l <= c))
        .map(|(k, l)| Vo::new(*k, &Bits((0..*l).map(|i| (0xA5u8 >> (i % 8)) & 1 == 1 || i + 1 == *l).collect()), Prov::Fresh))
        .collect()
}

fn dyn_provs(kind: K) -> &'static [Prov] {
    match kind {
        K::D => &[Prov::Fresh, Prov::Reserve200, Prov::GrowShrink, Prov::Conv],
        K::A => &[Prov::Fresh, Prov::Reserve200, Prov::DynExact, Prov::GrowShrink, Prov::Conv],
        _ => PROVS_PLAIN,
    }
}

// ------------------------------------------------------------------------------------------------
// C03
// ------------------------------------------------------------------------------------------------

fn depth_lengths(k: K, q: bool) -> Vec<usize> {
    match k.cap() {
        Some(c) => {
            let w = k.word();
            let mut s: BTreeSet<usize> = BTreeSet::new();
            s.extend([0, 1, w - 1, w, c - 1, c]);
            if !q {
                s.extend([w + 1, c - w + 1]);
            }
            s.into_iter().filter(|l| *l <= c).collect()
        }
        None => {
            if q {
                vec![0, 1, 63, 64, 65, 127, 128, 129, 193]
            } else {
                vec![0, 1, 63, 64, 65, 127, 128, 129, 191, 192, 193, 257]
            }
        }
    }
}

fn depth_pool(k: K) -> Vec<Vo> {
    let w = k.word();
    // operands of every word size: their bits are read through get_int::<u8>/<u64> by append/prepend,
    // so a length that ends in the lower half of a wide word, in the middle of a word, at a boundary
    pool_small(&[(K::F8x1, 0), (K::F8x1, 1), (K::F8x1, 3), (K::F8x2, 9), (k, w), (K::F128x2, w + 1), (K::D, 65), (K::A, 130), (K::F64x4, 200), (K::D, 257),
        (K::F128x1, 10)])
}

pub fn run_c03(cfg: &Cfg) -> (Part, Value, bool) {
    let q = cfg.quick();
    let seen = Seen::new();
    let mut part = Part::new();
    part.require("results_not_fresh_repr");
    let mut bounds: Vec<Value> = Vec::new();
    let opk = [K::F8x1, K::F8x2, K::D, K::A];

    // closure: Bvf<u8,1>, every state, operands = every value of length <= B of four kinds
    {
        let b = if q { 4 } else { 9 };
        let pool = pool_full(&opk, b);
        let roots = roots_of(&mut part, &seen, K::F8x1, &Bits::new(), PROVS_ALL);
        let npool = pool.len();
        let spec = spec_full(pool, 8, Idx::All);
        let o = explore(cfg, &mut part, &seen, "closure F8x1", roots, &spec, None, 10_000_000, Level::Full);
        bounds.push(json!({"subject": "Bvf<u8,1>", "mode": "closure", "operand_pool": format!("all values of length <= {} of F8x1,F8x2,D,A ({} operands)", b, npool), "states": o.states, "closed": o.closed}));
    }
    // closure: Bvf<u8,2>
    {
        let b = if q { 1 } else { 4 };
        let mut pool = pool_full(&[K::F8x2, K::F8x3, K::D, K::A], b);
        pool.extend(pool_small(&[(K::F8x3, 9), (K::D, 9), (K::F8x3, 16), (K::D, 17), (K::F8x3, 24), (K::A, 130)]));
        let npool = pool.len();
        let roots = roots_of(&mut part, &seen, K::F8x2, &Bits::new(), PROVS_ALL);
        let mut spec = spec_full(pool, 16, if q { Idx::Narrow } else { Idx::All });
        spec.inserts = !q;
        spec.extend_bits = 1;
        if q {
            spec.nat_ops = vec![Nat::U8(1), Nat::U8(0xA5), Nat::U128(u128::MAX)];
        }
        let o = explore(cfg, &mut part, &seen, "closure F8x2", roots, &spec, None, 10_000_000, Level::Full);
        bounds.push(json!({"subject": "Bvf<u8,2>", "mode": "closure", "operand_pool": format!("FULL-{} of F8x2,F8x3,D,A + operands of length 9,16,17,24,130 ({} operands)", b, npool), "states": o.states, "closed": o.closed}));
    }
    // closure restricted to len <= 20: Bvf<u8,3> (thorough only)
    if !q {
        let pool = pool_small(&[(K::F8x1, 0), (K::F8x1, 1), (K::F8x3, 3), (K::D, 9), (K::F8x3, 17), (K::A, 24)]);
        let roots = roots_of(&mut part, &seen, K::F8x3, &Bits::new(), PROVS_PLAIN);
        let mut spec = spec_full(pool, 20, Idx::Narrow);
        spec.inserts = false;
        spec.extend_bits = 1;
        spec.nat_ops = vec![Nat::U8(1), Nat::U8(0xA5), Nat::U128(u128::MAX)];
        spec.bins = vec![BinOp::Add, BinOp::Sub, BinOp::Or, BinOp::Xor, BinOp::And];
        let o = explore(cfg, &mut part, &seen, "closure F8x3 len<=20", roots, &spec, None, 60_000_000, Level::Full);
        bounds.push(json!({"subject": "Bvf<u8,3>", "mode": "closure restricted to len <= 20", "states": o.states, "closed": o.closed}));
    }
    // closure restricted to short lengths for Bvd and Bv: every reachable (length <= L, value,
    // capacity, storage mode) under the full alphabet incl. reserve / shrink_to_fit - unbounded
    // histories for the capacity- and mode-management logic (word-boundary logic is not reached here)
    for k in [K::D, K::A] {
        let l = if q { 10 } else { 13 };
        let pool = pool_small(&[(K::F8x1, 0), (K::F8x1, 1), (K::F8x1, 3), (K::D, 2), (K::A, 5), (K::F64x4, 4)]);
        let mut roots = roots_of(&mut part, &seen, k, &Bits::new(), PROVS_ALL);
        roots.extend(roots_of(&mut part, &seen, k, &Bits::from_u128(3, 0b101), PROVS_ALL));
        let mut spec = spec_full(pool, l, Idx::All);
        spec.inserts = !q;
        spec.extend_bits = 1;
        spec.nat_ops = vec![Nat::U8(1), Nat::U8(0xA5), Nat::U128(u128::MAX)];
        let o = explore(cfg, &mut part, &seen, &format!("closure {} len<={}", k.name(), l), roots, &spec, None, 20_000_000, Level::Full);
        bounds.push(json!({"subject": k.name(), "mode": format!("closure restricted to len <= {}", l), "states": o.states, "closed": o.closed,
            "note": "states = (length, value, allocated words, inline/heap); reserve(k) for k in {0,1,63,64,65,200} and shrink_to_fit are in the alphabet"}));
    }
    // depth mode: every other kind from boundary roots
    let depth = if q { 2 } else { 3 };
    let kinds: Vec<K> = ALL_KINDS.iter().copied().filter(|k| k.word() != 8).collect();
    for &k in &kinds {
        let lengths = depth_lengths(k, q);
        let roots = roots_small(&mut part, &seen, k, &lengths, dyn_provs(k));
        let nroots = roots.len();
        let maxl = k.cap().unwrap_or(330);
        let mut spec = spec_full(depth_pool(k), maxl, Idx::Narrow);
        spec.inserts = false;
        spec.extend_bits = 1;
        spec.nat_ops = vec![Nat::U8(0xA5), Nat::U128(u128::MAX)];
        if q {
            spec.bins = vec![BinOp::Add, BinOp::Mul, BinOp::Or, BinOp::Xor, BinOp::Rem];
        }
        let nacts = alphabet(&spec, k, maxl.min(129)).len();
        let o = explore(cfg, &mut part, &seen, &format!("depth-{} {}", depth, k.name()), roots, &spec, Some(depth), 30_000_000, Level::Lite);
        bounds.push(json!({"subject": k.name(), "mode": "depth", "depth": depth, "roots": nroots, "root_lengths": lengths, "actions_per_state": nacts, "states": o.states}));
    }
    (part, json!({"explorations": bounds}), true)
}

// ------------------------------------------------------------------------------------------------
// C07
// ------------------------------------------------------------------------------------------------

pub fn run_c07(cfg: &Cfg) -> (Part, Value, bool) {
    let q = cfg.quick();
    let seen = Seen::new();
    let mut part = Part::new();
    let mut bounds: Vec<Value> = Vec::new();
    // closure F8x1 / F8x2 under the edit alphabet
    for (k, b, idx) in [(K::F8x1, if q { 4 } else { 8 }, Idx::All), (K::F8x2, if q { 2 } else { 4 }, if q { Idx::Boundary } else { Idx::All })] {
        let mut pool = pool_full(&[K::F8x1, K::F8x2, K::D, K::A], b);
        pool.extend(pool_small(&[(K::F8x3, 8), (K::F16x1, 9), (K::F64x2, 16), (K::D, 9), (K::A, 8), (K::D, 16), (K::F128x1, 10), (K::F128x1, 3), (K::F32x1, 5), (K::FUx1, 2)]));
        let npool = pool.len();
        let roots = roots_of(&mut part, &seen, k, &Bits::new(), PROVS_ALL);
        let spec = spec_edits(pool, k.cap().unwrap(), idx, if q { 2 } else { 3 });
        let o = explore(cfg, &mut part, &seen, &format!("closure {} edits", k.name()), roots, &spec, None, 10_000_000, Level::Full);
        bounds.push(json!({"subject": k.name(), "mode": "closure", "operands": npool, "states": o.states, "closed": o.closed}));
    }
    // depth mode
    let depth = if q { 2 } else { 3 };
    let kinds: Vec<K> = if q { vec![K::F16x2, K::F64x2, K::F128x1, K::D, K::A] } else { ALL_KINDS.iter().copied().filter(|k| k.word() != 8).collect() };
    for &k in &kinds {
        let lengths: Vec<usize> = match k.cap() {
            Some(_) => depth_lengths(k, q),
            None => if q { vec![0, 1, 63, 64, 65, 127, 128, 129, 191] } else { vec![0, 1, 62, 63, 64, 65, 66, 126, 127, 128, 129, 130, 190, 191, 192, 193, 194] },
        };
        let roots = roots_small(&mut part, &seen, k, &lengths, dyn_provs(k));
        let nroots = roots.len();
        let maxl = k.cap().unwrap_or(400);
        let mut spec = spec_edits(depth_pool(k), maxl, Idx::Narrow, 1);
        spec.inserts = true;
        let nacts = alphabet(&spec, k, maxl.min(129)).len();
        // the fixed kinds have small edit alphabets: one level deeper in the thorough tier
        let depth = if k.cap().is_some() { depth + 1 } else { depth };
        let o = explore(cfg, &mut part, &seen, &format!("depth-{} {} edits", depth, k.name()), roots, &spec, Some(depth), 30_000_000, Level::Lite);
        bounds.push(json!({"subject": k.name(), "mode": "depth", "depth": depth, "roots": nroots, "root_lengths": lengths, "actions_per_state": nacts, "states": o.states}));
    }
    // unbounded-length probes for D and A: scripted histories compared with the list model
    for k in [K::D, K::A] {
        let big = Vo::new(K::D, &Bits((0..300).map(|i| i % 3 == 0 || i % 7 == 1).collect()), Prov::Fresh);
        let ext = Bits((0..2000).map(|i| i % 5 == 0 || i % 11 == 3).collect());
        let scripts: Vec<Vec<Act>> = vec![
            vec![Act::Resize(1000, true), Act::Resize(1001, false), Act::Truncate(999), Act::Push(true)],
            vec![Act::Append(big.clone()), Act::Append(big.clone()), Act::Prepend(big.clone()), Act::Append(big.clone()), Act::Insert(301, big.clone())],
            vec![Act::Extend(ext.clone()), Act::Pop, Act::SignExtend(2500), Act::Truncate(5)],
            vec![Act::ExtendNoHint(ext.clone()), Act::ExtendNoHint(Bits::ones(70)), Act::Rebuild(Rb::CollectNoHint)],
        ];
        for root_bits in [Bits::new(), Bits::from_u128(3, 0b101), Bits::ones(127)] {
            for sc in scripts.iter() {
                let root = Vo::new(k, &root_bits, Prov::Fresh);
                let rs = root.show();
                let mut x = root.v.clone();
                let mut prefix: Vec<String> = Vec::new();
                for a in sc {
                    let m = x.bits();
                    let org = Origin::Fixed { root: &rs, prefix: &prefix };
                    let out = step(cfg, &mut part, &seen, Level::Lite, &org, &x, &m, a);
                    part.count("unbounded_growth_probe_steps", 1);
                    match out.next {
                        Some(y) => x = y,
                        None => break,
                    }
                    prefix.push(a.show());
                    if x.len() > 900 {
                        part.count("probe_reached_len_over_900", 1);
                    }
                }
            }
        }
    }
    part.require("unbounded_growth_probe_steps");
    part.require("probe_reached_len_over_900");
    (part, json!({"explorations": bounds, "alphabet": "push pop set resize truncate sign_extend append prepend insert extend collect",
        "unbounded_probes": "resize to 1000, 300-bit operand appended/prepended/inserted five times, extend by 2000 bits (D and A)"}), true)
}

// ------------------------------------------------------------------------------------------------
// C18
// ------------------------------------------------------------------------------------------------

pub fn run_c18(cfg: &Cfg) -> (Part, Value, bool) {
    let q = cfg.quick();
    let seen = Seen::new();
    let mut part = Part::new();
    for r in ["auto_switch_inline_to_heap", "auto_switch_heap_to_inline", "reserve_postcondition_checked", "shrink_postcondition_checked", "with_capacity_checked"] {
        part.require(r);
    }
    let mut bounds: Vec<Value> = Vec::new();
    let depth = 3;
    for k in [K::D, K::A] {
        // with_capacity(c): empty, capacity >= c
        let mut roots: Vec<Vo> = Vec::new();
        for c in [0u16, 1, 63, 64, 65, 127, 128, 129, 200, 300] {
            let r = Vo::new(k, &Bits::new(), Prov::Cap(c));
            part.transitions += 1;
            part.count("with_capacity_checked", 1);
            if r.v.len() != 0 || r.v.capacity() < c as usize {
                part.violation(crate::report::Violation {
                    op: "with_capacity".into(),
                    lhs: k.name().into(),
                    rhs: "-".into(),
                    form: "-".into(),
                    flags: vec![],
                    what: "with_capacity_postcondition".into(),
                    root: r.show(),
                    ops: vec![],
                    check: "state".into(),
                    expected: format!("len=0 capacity>={}", c),
                    observed: format!("len={} capacity={}", r.v.len(), r.v.capacity()),
                });
            }
            roots.extend(roots_of(&mut part, &seen, k, &Bits::new(), &[Prov::Cap(c)]));
            roots.extend(roots_of(&mut part, &seen, k, &Bits::from_u128(3, 0b101), &[Prov::Cap(c)]));
        }
        let lengths: Vec<usize> = if q { vec![0, 1, 64, 127, 128, 129] } else { vec![0, 1, 63, 64, 65, 127, 128, 129] };
        roots.extend(roots_small(&mut part, &seen, k, &lengths, dyn_provs(k)));
        let nroots = roots.len();
        let pool = pool_small(&[(K::F8x1, 0), (K::F8x1, 1), (K::F8x1, 8), (K::F64x2, 64), (K::D, 65), (K::F64x2, 128), (K::F64x4, 256), (K::D, 257), (K::F128x1, 10)]);
        let mut spec = spec_edits(pool, 460, Idx::Narrow, 1);
        spec.inserts = false;
        spec.capacity = true;
        spec.bins = vec![BinOp::Add, BinOp::Sub, BinOp::Or, BinOp::Xor, BinOp::And, BinOp::Mul];
        spec.extra_lengths = vec![0, 64, 127, 128, 129, 192, 257];
        let nacts = alphabet(&spec, k, 129).len();
        let o = explore(cfg, &mut part, &seen, &format!("depth-{} {} capacity", depth, k.name()), roots, &spec, Some(depth), 30_000_000, Level::Lite);
        bounds.push(json!({"subject": k.name(), "mode": "depth", "depth": depth, "roots": nroots, "actions_per_state": nacts, "states": o.states}));
    }
    // closure restricted to short lengths: every reachable (length <= L, value, capacity, mode)
    for k in [K::D, K::A] {
        let l = if q { 8 } else { 11 };
        let mut roots: Vec<Vo> = Vec::new();
        for c in [0u16, 1, 64, 65, 129, 200] {
            roots.extend(roots_of(&mut part, &seen, k, &Bits::new(), &[Prov::Cap(c)]));
        }
        roots.extend(roots_of(&mut part, &seen, k, &Bits::from_u128(3, 0b101), dyn_provs(k)));
        let pool = pool_small(&[(K::F8x1, 0), (K::F8x1, 1), (K::F8x1, 3), (K::D, 2), (K::F64x4, 4)]);
        let mut spec = spec_edits(pool, l, Idx::All, 1);
        spec.inserts = false;
        spec.capacity = true;
        spec.bins = vec![BinOp::Add, BinOp::Or, BinOp::Xor];
        let o = explore(cfg, &mut part, &seen, &format!("closure {} len<={} capacity", k.name(), l), roots, &spec, None, 20_000_000, Level::Lite);
        bounds.push(json!({"subject": k.name(), "mode": format!("closure restricted to len <= {}", l), "states": o.states, "closed": o.closed}));
    }
    (part, json!({"explorations": bounds, "alphabet": "with_capacity (roots) reserve shrink_to_fit push pop set resize truncate sign_extend append prepend extend collect, op= with operands longer than the subject",
        "invariants": "len<=capacity in every state; reserve: capacity>=len+k; shrink_to_fit: capacity<=fresh(len).capacity(); bits unchanged; never panics"}), true)
}
