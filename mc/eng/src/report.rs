//! Accumulation of coverage counters, violation classes and samples; partial-evidence output.
//! Everything is merged with order-independent operations (sums, unions, minimum by key), so the
//! numbers of a run do not depend on thread scheduling.

use serde_json::{json, Value};
use std::collections::{BTreeMap, BTreeSet, HashSet};
use std::hash::{BuildHasherDefault, Hasher};

use mccore::kinds::Raw;

/// FNV-1a style 64-bit fingerprint of a representation (state counting only).
pub fn fingerprint(r: &Raw) -> u64 {
    let mut h: u64 = 0xcbf29ce484222325;
    let mut eat = |b: u8| {
        h ^= b as u64;
        h = h.wrapping_mul(0x100000001b3);
    };
    eat(r.kind as u8);
    eat(r.mode);
    for b in (r.len as u64).to_le_bytes() {
        eat(b);
    }
    for b in (r.bytes.len() as u32).to_le_bytes() {
        eat(b);
    }
    for b in &r.bytes {
        eat(*b);
    }
    // final avalanche
    h ^= h >> 33;
    h = h.wrapping_mul(0xff51afd7ed558ccd);
    h ^= h >> 33;
    h
}

#[derive(Default, Clone, Copy)]
pub struct IdHasher(u64);
impl Hasher for IdHasher {
    fn finish(&self) -> u64 {
        self.0
    }
    fn write(&mut self, _: &[u8]) {
        unreachable!()
    }
    fn write_u64(&mut self, i: u64) {
        self.0 = i;
    }
}
pub type FpSet = HashSet<u64, BuildHasherDefault<IdHasher>>;

/// One violation, with everything needed to replay it.
#[derive(Clone, Debug)]
pub struct Violation {
    /// operation name, e.g. "add", "resize", "observer:is_zero"
    pub op: String,
    /// kind of the subject (left operand)
    pub lhs: String,
    /// kind of the right operand / amount type, "-" if none
    pub rhs: String,
    /// operator form, "-" if none
    pub form: String,
    /// feature flags of the case (sorted)
    pub flags: Vec<String>,
    /// what went wrong, short: "wrong_bits", "wrong_len", "panicked", "no_panic", "observer", ...
    pub what: String,
    /// root of the replay: text form of the starting vector
    pub root: String,
    /// action list (text form)
    pub ops: Vec<String>,
    /// final check to evaluate after the ops: "state", "battery", or an observer name
    pub check: String,
    pub expected: String,
    pub observed: String,
}

impl Violation {
    pub fn class_key(&self) -> String {
        format!("{}|{}|{}|{}|{}|{}", self.op, self.lhs, self.rhs, self.form, self.what, self.flags.join(","))
    }
    fn order_key(&self) -> (usize, usize, String) {
        (self.ops.len(), self.root.len() + self.ops.iter().map(|s| s.len()).sum::<usize>(), format!("{}#{}", self.root, self.ops.join(";")))
    }
    pub fn to_json(&self, property: &str, profile: &str) -> Value {
        json!({
            "property": property, "profile": profile,
            "op": self.op, "lhs": self.lhs, "rhs": self.rhs, "form": self.form, "flags": self.flags, "what": self.what,
            "root": self.root, "ops": self.ops, "check": self.check,
            "expected": self.expected, "observed": self.observed,
        })
    }
}

#[derive(Clone)]
pub struct ClassRec {
    pub count: u64,
    pub first: Violation,
}

/// Per-partition accumulator.
#[derive(Default)]
pub struct Part {
    pub transitions: u64,
    pub states: FpSet,
    pub counters: BTreeMap<String, u64>,
    pub classes: BTreeMap<String, ClassRec>,
    pub samples: BTreeMap<String, Value>,
    pub outcomes: BTreeMap<String, BTreeSet<u64>>,
    pub partitions: Vec<Value>,
    pub caps_hit: Vec<String>,
    pub skipped_unspecified: u64,
    pub required: BTreeSet<String>,
}

impl Part {
    pub fn new() -> Part {
        Part::default()
    }
    pub fn count(&mut self, name: &str, n: u64) {
        if n > 0 {
            *self.counters.entry(name.to_string()).or_insert(0) += n;
        } else {
            self.counters.entry(name.to_string()).or_insert(0);
        }
    }
    /// declare a non-vacuity counter that must be > 0 at the end of the run
    pub fn require(&mut self, name: &str) {
        self.required.insert(name.to_string());
        self.counters.entry(name.to_string()).or_insert(0);
    }
    pub fn state(&mut self, r: &Raw) {
        self.states.insert(fingerprint(r));
    }
    pub fn violation(&mut self, v: Violation) {
        let k = v.class_key();
        match self.classes.get_mut(&k) {
            Some(c) => {
                c.count += 1;
                if v.order_key() < c.first.order_key() {
                    c.first = v;
                }
            }
            None => {
                self.classes.insert(k, ClassRec { count: 1, first: v });
            }
        }
    }
    /// keep one sample per label (the smallest by text, for determinism)
    pub fn sample(&mut self, label: &str, v: Value) {
        match self.samples.get(label) {
            Some(old) if old.to_string() <= v.to_string() => {}
            _ => {
                self.samples.insert(label.to_string(), v);
            }
        }
    }
    pub fn has_sample(&self, label: &str) -> bool {
        self.samples.contains_key(label)
    }
    /// record a distinct observed outcome (fingerprint) for an operation
    pub fn outcome(&mut self, op: &str, fp: u64) {
        let s = self.outcomes.entry(op.to_string()).or_default();
        if s.len() < 4096 {
            s.insert(fp);
        }
    }
    pub fn merge(mut self, o: Part) -> Part {
        self.transitions += o.transitions;
        self.skipped_unspecified += o.skipped_unspecified;
        if self.states.len() < o.states.len() {
            let mut s = o.states;
            s.extend(self.states.drain());
            self.states = s;
        } else {
            self.states.extend(o.states);
        }
        for (k, v) in o.counters {
            *self.counters.entry(k).or_insert(0) += v;
        }
        for (k, c) in o.classes {
            match self.classes.get_mut(&k) {
                Some(m) => {
                    m.count += c.count;
                    if c.first.order_key() < m.first.order_key() {
                        m.first = c.first;
                    }
                }
                None => {
                    self.classes.insert(k, c);
                }
            }
        }
        for (k, v) in o.samples {
            self.sample(&k, v);
        }
        for (k, s) in o.outcomes {
            let e = self.outcomes.entry(k).or_default();
            for x in s {
                if e.len() < 4096 {
                    e.insert(x);
                }
            }
        }
        self.partitions.extend(o.partitions);
        self.required.extend(o.required);
        self.caps_hit.extend(o.caps_hit);
        self
    }

    /// partial evidence of one profile
    pub fn to_json(&self, property: &str, tier: &str, profile: &str, wall_s: f64, bounds: Value, exhaustive: bool) -> Value {
        let mut parts = self.partitions.clone();
        parts.sort_by_key(|p| p.to_string());
        let mut classes: Vec<Value> = Vec::new();
        for (k, c) in &self.classes {
            let mut j = c.first.to_json(property, profile);
            j["class"] = json!(k);
            j["count"] = json!(c.count);
            classes.push(j);
        }
        json!({
            "property": property, "tier": tier, "profile": profile,
            "states": self.states.len(), "transitions": self.transitions,
            "skipped_unspecified": self.skipped_unspecified,
            "exhaustive": exhaustive && self.caps_hit.is_empty(),
            "caps_hit": self.caps_hit,
            "bounds": bounds,
            "counters": self.counters,
            "required_counters": self.required.iter().cloned().collect::<Vec<String>>(),
            "distinct_outcomes": self.outcomes.iter().map(|(k, s)| (k.clone(), json!(s.len()))).collect::<serde_json::Map<String, Value>>(),
            "samples": self.samples.values().cloned().collect::<Vec<Value>>(),
            "partitions": parts,
            "classes": classes,
            "wall_s": wall_s,
        })
    }
}
