//! Shared engine machinery: configuration, the transition oracle (`step`), feature flags,
//! battery de-duplication.

use crate::battery::{battery, Level};
use crate::report::{Part, Violation};
use mccore::act::{apply, guard, model, Act, Exp, ExpObs, Obs};
use mccore::bits::Bits;
use mccore::kinds::*;
use serde_json::json;
use std::collections::HashSet;
use std::sync::Mutex;

#[derive(Clone, Copy, PartialEq, Eq, Debug)]
pub enum Tier {
    Quick,
    Thorough,
}

#[derive(Clone, Debug)]
pub struct Cfg {
    pub prop: String,
    pub tier: Tier,
    /// "dbg" (debug assertions + overflow checks) or "rel"
    pub profile: &'static str,
    pub dbg: bool,
    /// wall-clock budget in seconds; engines stop starting new partitions after it
    pub budget_s: f64,
    pub start: std::time::Instant,
}

impl Cfg {
    pub fn quick(&self) -> bool {
        self.tier == Tier::Quick
    }
    pub fn out_of_time(&self) -> bool {
        self.start.elapsed().as_secs_f64() > self.budget_s
    }
}

/// Are findings made while *constructing and validating roots* violations of the property being
/// checked? Only for C03 (hidden state after any history, constructors included); every other
/// property only requires a root to show the requested bits (else it is dropped and counted as
/// `roots_rejected_by_validation`); it does not run the battery on roots, because the root is not
/// a result of the operations that property speaks about.
pub static ROOT_FINDINGS_COUNT: std::sync::atomic::AtomicBool = std::sync::atomic::AtomicBool::new(false);

/// When is a returned vector put through the differential battery?
/// * strict (C03, C18 - the properties that speak about spare capacity / storage mode not being
///   observable): whenever its representation differs from the freshly constructed one;
/// * otherwise: only when some storage bit at a position >= len is set ("dirty padding"). A vector
///   with clean padding and spare capacity / heap mode is bit-identical to what `zeros`+`set`+
///   `reserve` builds; whether such vectors behave like fresh ones is C03's and C18's question, and
///   asking it in every other check would make e.g. C08 fail for a defect of `trailing_zeros`.
/// The raw representation only decides whether the battery runs; the verdict is the battery's.
pub static STRICT_BATTERY: std::sync::atomic::AtomicBool = std::sync::atomic::AtomicBool::new(false);

/// Run-wide set of representations that already went through the battery.
pub struct Seen {
    shards: Vec<Mutex<HashSet<Raw>>>,
}
impl Seen {
    pub fn new() -> Seen {
        Seen { shards: (0..64).map(|_| Mutex::new(HashSet::new())).collect() }
    }
    /// true if newly inserted
    pub fn insert(&self, r: &Raw) -> bool {
        let i = (crate::report::fingerprint(r) % 64) as usize;
        self.shards[i].lock().unwrap().insert(r.clone())
    }
    pub fn len(&self) -> usize {
        self.shards.iter().map(|s| s.lock().unwrap().len()).sum()
    }
}

/// feature flags of a transition, for violation classes
pub fn flags(x: &AnyBv, m: &Bits, a: &Act) -> Vec<String> {
    let mut f: Vec<&str> = Vec::new();
    let kind = x.kind();
    let n = m.len();
    if n == 0 {
        f.push("lhs_empty");
    }
    if n > kind.word() {
        f.push("multi_word");
    }
    if kind.cap() == Some(n) {
        f.push("len_eq_capacity");
    }
    let r = x.raw();
    let p = Raw::predict(kind, m);
    if r.bytes.len() > p.bytes.len() {
        f.push("lhs_spare_capacity");
    }
    if kind == K::A && r.mode == 1 && n <= INLINE_LIMIT {
        f.push("lhs_dynamic_small");
    }
    if let Some(rb) = a.rhs_bits() {
        if rb.len() > n {
            f.push("rhs_longer");
        }
        if kind.cap().map_or(false, |c| rb.len() > c) {
            f.push("rhs_longer_than_capacity");
        }
        if rb.is_empty() {
            f.push("rhs_empty");
        }
        if rb.len() > n && rb.0[n..].iter().any(|b| *b) {
            f.push("rhs_bits_beyond_len");
        }
        if rb.is_zero() {
            f.push("rhs_zero");
        }
    }
    if a.rhs_prov().map_or(false, |p| p.spare()) {
        f.push("rhs_spare_capacity");
    }
    if let Act::Shift { amt, .. } = a {
        if amt.val() > u64::MAX as u128 {
            f.push("amount_ge_2^64");
        } else if amt.val() >= n as u128 {
            f.push("amount_ge_len");
        }
    }
    if let Act::Bin { rhs: Opd::N(_), .. } = a {
        f.push("rhs_native");
    }
    f.sort();
    f.into_iter().map(|s| s.to_string()).collect()
}

fn obs_str(o: &Obs) -> String {
    match o {
        Obs::None => "()".into(),
        Obs::Bit(b) => format!("{:?}", b),
        Obs::V1(v) => format!("len={} bits={}", v.len(), v.bits().to_binstr()),
        Obs::V2(a, b) => format!("(len={} bits={}, len={} bits={})", a.len(), a.bits().to_binstr(), b.len(), b.bits().to_binstr()),
        Obs::Err(e) => format!("Err({})", e),
    }
}
fn expobs_str(o: &ExpObs) -> String {
    match o {
        ExpObs::None => "()".into(),
        ExpObs::Bit(b) => format!("{:?}", b),
        ExpObs::B1(v) => format!("len={} bits={}", v.len(), v.to_binstr()),
        ExpObs::B2(a, b) => format!("(len={} bits={}, len={} bits={})", a.len(), a.to_binstr(), b.len(), b.to_binstr()),
        ExpObs::Err(e) => format!("Err({})", e),
    }
}

/// Where a transition sits: how to reach the state it starts from.
pub enum Origin<'a> {
    Fixed { root: &'a str, prefix: &'a [String] },
    /// computed only when a violation has to be written out
    Lazy(&'a (dyn Fn() -> (String, Vec<String>) + Sync)),
}
impl Origin<'_> {
    pub fn get(&self) -> (String, Vec<String>) {
        match self {
            Origin::Fixed { root, prefix } => (root.to_string(), prefix.to_vec()),
            Origin::Lazy(f) => f(),
        }
    }
}

pub struct StepOut {
    /// the subject after the action (None if it panicked / was not specified)
    pub next: Option<AnyBv>,
    /// did this transition violate the property
    pub violated: bool,
}

/// Check a returned vector: visible bits equal the expected ones, and - when its representation is
/// not bit-identical to a freshly constructed vector - the differential battery.
#[allow(clippy::too_many_arguments)]
pub fn check_vector(
    part: &mut Part,
    seen: &Seen,
    level: Level,
    y: &AnyBv,
    expected: &Bits,
    mk: &dyn Fn(&str, String, String, &str) -> Violation,
    what_prefix: &str,
) -> bool {
    let mut bad = false;
    let yb = y.bits();
    if yb.len() != expected.len() {
        part.violation(mk(&format!("{}wrong_len", what_prefix), format!("len={}", expected.len()), format!("len={}", yb.len()), "state"));
        bad = true;
    } else if &yb != expected {
        part.violation(mk(&format!("{}wrong_bits", what_prefix), expected.to_binstr(), yb.to_binstr(), "state"));
        bad = true;
    }
    let r = y.raw();
    part.state(&r);
    if y.capacity() < y.len() {
        part.violation(mk(&format!("{}len_gt_capacity", what_prefix), format!("len<={}", y.capacity()), format!("len={}", y.len()), "state"));
        bad = true;
    }
    if r != Raw::predict(y.kind(), &yb) {
        part.count("results_not_fresh_repr", 1);
        let strict = STRICT_BATTERY.load(std::sync::atomic::Ordering::Relaxed);
        if !strict && r.padding_clean() {
            part.count("results_clean_padding_spare_or_heap", 1);
        } else if seen.insert(&r) {
            part.count("battery_runs", 1);
            let fs = battery(y, &yb, level);
            if let Some(f) = fs.first() {
                let names: Vec<&str> = fs.iter().take(6).map(|f| f.observer.as_str()).collect();
                part.violation(mk(
                    &format!("{}hidden_state", what_prefix),
                    format!("like a fresh vector with bits {}: {} = {}", yb.to_binstr(), f.observer, f.expected),
                    format!("{} = {} ({} observers differ: {})", f.observer, f.observed, fs.len(), names.join(", ")),
                    "battery",
                ));
                bad = true;
            }
        }
    } else {
        part.count("results_fresh_repr", 1);
    }
    bad
}

/// Execute one transition on the real code and on the model, compare, record.
pub fn step(cfg: &Cfg, part: &mut Part, seen: &Seen, level: Level, org: &Origin, x: &AnyBv, m: &Bits, a: &Act) -> StepOut {
    let kind = x.kind();
    let exp = model(kind, m, a);
    if exp == Exp::Unspecified || (exp == Exp::PanicDbg && !cfg.dbg) {
        part.skipped_unspecified += 1;
        return StepOut { next: None, violated: false };
    }
    let res = guard(|| apply(x.clone(), a));
    part.transitions += 1;
    let mk = |what: &str, expected: String, observed: String, check: &str| -> Violation {
        let (root, mut ops) = org.get();
        ops.push(a.show());
        Violation {
            op: a.op_name(),
            lhs: kind.name().to_string(),
            rhs: a.rhs_name().unwrap_or_else(|| "-".into()),
            form: a.form_name().unwrap_or("-").to_string(),
            flags: flags(x, m, a),
            what: what.to_string(),
            root,
            ops,
            check: check.to_string(),
            expected,
            observed,
        }
    };
    match (exp, res) {
        (Exp::Panic, Err(())) | (Exp::PanicDbg, Err(())) => {
            part.count("required_panics_observed", 1);
            StepOut { next: None, violated: false }
        }
        (Exp::Panic, Ok((y, _))) | (Exp::PanicDbg, Ok((y, _))) => {
            part.violation(mk("no_panic", "panic".into(), format!("returned len={} capacity={}", y.len(), y.capacity()), "state"));
            StepOut { next: None, violated: true }
        }
        (Exp::OkLenOnly(_), Err(())) => {
            part.violation(mk("panicked", "returns".into(), "panicked".into(), "state"));
            StepOut { next: None, violated: true }
        }
        (Exp::OkLenOnly(l), Ok((y, _))) => {
            if y.len() != l {
                part.violation(mk("wrong_len", format!("len={}", l), format!("len={}", y.len()), "state"));
                return StepOut { next: None, violated: true };
            }
            // continue from whatever bits the implementation chose
            let yb = y.bits();
            let bad = check_vector(part, seen, level, &y, &yb, &mk, "");
            StepOut { next: Some(y), violated: bad }
        }
        (Exp::Ok { .. }, Err(())) => {
            part.violation(mk("panicked", "returns".into(), "panicked".into(), "state"));
            StepOut { next: None, violated: true }
        }
        (Exp::Ok { m: em, obs: eobs }, Ok((y, obs))) => {
            let mut bad = false;
            if y.kind() != kind {
                part.violation(mk("wrong_type", kind.name().into(), y.kind().name().into(), "state"));
                bad = true;
            }
            // observation
            match (&eobs, &obs) {
                (ExpObs::None, Obs::None) => {}
                (ExpObs::Bit(a), Obs::Bit(b)) if a == b => {}
                (ExpObs::B1(e1), Obs::V1(v1)) => {
                    if v1.kind() != kind {
                        part.violation(mk("ret:wrong_type", kind.name().into(), v1.kind().name().into(), "state"));
                        bad = true;
                    }
                    bad |= check_vector(part, seen, level, v1, e1, &mk, "ret:");
                }
                (ExpObs::B2(e1, e2), Obs::V2(v1, v2)) => {
                    bad |= check_vector(part, seen, level, v1, e1, &mk, "ret0:");
                    bad |= check_vector(part, seen, level, v2, e2, &mk, "ret1:");
                }
                (ExpObs::Err(e), Obs::Err(o)) if e == o => {}
                _ => {
                    part.violation(mk("wrong_return", expobs_str(&eobs), obs_str(&obs), "state"));
                    bad = true;
                }
            }
            bad |= check_vector(part, seen, level, &y, &em, &mk, "");
            if cfg.prop == "C18" {
                bad |= capacity_postconditions(part, x, &y, a, &mk);
            }
            if !bad && !part.has_sample(&a.op_name()) {
                part.sample(
                    &a.op_name(),
                    json!({"subject": format!("{}:{}", kind.name(), m.to_binstr()), "op": a.show(), "result_bits": em.to_binstr(), "returned": expobs_str(&eobs)}),
                );
            }
            StepOut { next: Some(y), violated: bad }
        }
        (Exp::Unspecified, _) => unreachable!(),
    }
}

/// C18: what reserve / shrink_to_fit promise about capacity, and mode-switch counters.
fn capacity_postconditions(part: &mut Part, x: &AnyBv, y: &AnyBv, a: &Act, mk: &dyn Fn(&str, String, String, &str) -> Violation) -> bool {
    let mut bad = false;
    if y.kind() == K::A {
        let (m0, m1) = (x.raw().mode, y.raw().mode);
        if m0 == 0 && m1 == 1 {
            part.count("auto_switch_inline_to_heap", 1);
        }
        if m0 == 1 && m1 == 0 {
            part.count("auto_switch_heap_to_inline", 1);
        }
    }
    match a {
        Act::Reserve(k) => {
            if y.capacity() < y.len() + k {
                part.violation(mk("reserve_capacity_too_small", format!("capacity >= {}", y.len() + k), format!("capacity = {}", y.capacity()), "state"));
                bad = true;
            }
            part.count("reserve_postcondition_checked", 1);
        }
        Act::ShrinkToFit => {
            let f = fresh(y.kind(), &y.bits());
            if y.capacity() > f.capacity() {
                part.violation(mk("shrink_leaves_excess_capacity", format!("capacity <= {}", f.capacity()), format!("capacity = {}", y.capacity()), "state"));
                bad = true;
            }
            part.count("shrink_postcondition_checked", 1);
        }
        _ => {}
    }
    bad
}

/// Replay a root + action list outside any explorer; returns the violations found.
pub fn replay_ops(cfg: &Cfg, root: &str, ops: &[String]) -> Result<Part, String> {
    let vo = Vo::parse(root).ok_or_else(|| format!("cannot parse root {}", root))?;
    let seen = Seen::new();
    let mut part = Part::new();
    let mut x = vo.v;
    let mut prefix: Vec<String> = Vec::new();
    for (i, o) in ops.iter().enumerate() {
        let a = Act::parse(o).ok_or_else(|| format!("cannot parse op {}", o))?;
        let m = x.bits();
        let org = Origin::Fixed { root, prefix: &prefix };
        let out = step(cfg, &mut part, &seen, Level::Full, &org, &x, &m, &a);
        println!("  step {}: {}  -> {}", i, o, if out.violated { "VIOLATES" } else { "ok" });
        match out.next {
            Some(y) => x = y,
            None => break,
        }
        prefix.push(o.clone());
    }
    Ok(part)
}
