#!/bin/sh
# Offline pre-build of both profiles of the checker against /repo's current tree.
set -e
cd "$(dirname "$0")"
export CARGO_NET_OFFLINE=true
mkdir -p evidence replays
exec ./check build
