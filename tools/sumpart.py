#!/usr/bin/env python3
import json,sys,collections
j=json.load(open(sys.argv[1]))
print({k:j[k] for k in ['property','profile','states','transitions','exhaustive','caps_hit','skipped_unspecified','wall_s']})
print('counters',j['counters'])
agg=collections.Counter()
ex={}
for c in j['classes']:
    key=(c['op'],c['what'],c['lhs'] if len(sys.argv)>2 else '*',)
    agg[key]+=c['count']
    ex.setdefault(key,c)
print('classes',len(j['classes']))
for k,v in sorted(agg.items()):
    c=ex[k]
    print(k,v,'| e.g.',c['root'][:50],c['ops'][-1][:70] if c['ops'] else c['check'][:70],'| exp',str(c['expected'])[:60],'| obs',str(c['observed'])[:60])
