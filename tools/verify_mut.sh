#!/bin/sh
# usage: tools/verify_mut.sh <name> <patch.diff>  - does the repository's suite still pass with the patch?
N="$1"; P="$2"; W=/tmp/vs/$N
rm -rf "$W"; git -C /repo worktree prune
git -C /repo worktree add -q --detach "$W" HEAD || exit 2
cp /repo/Cargo.lock "$W"/
cd "$W" && git apply "$P" || { echo "$N: patch does not apply"; exit 2; }
cargo test --offline > "$W.suite.log" 2>&1; S=$?
U=$(grep -c "^test result: ok. 235 passed" "$W.suite.log"); DT=$(grep -c "^test result: ok. 49 passed" "$W.suite.log")
echo "$N: suite_exit=$S unit235=$U doc49=$DT $(grep -E '^error' "$W.suite.log" | head -2 | tr '\n' ' ') $(grep -E 'FAILED|failed' "$W.suite.log" | head -2 | tr '\n' ' ')"
cd /; git -C /repo worktree remove --force "$W"
