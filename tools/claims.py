# executed by gen_manifest.py: one claim(...) per property whose check exists and runs clean
claim("C01", "arith",
      "explicit-state exhaustive enumeration (step mode) of real operator code vs bit-list reference model",
      "Every (lhs kind, rhs kind/native type, length pair, value pair, op in {+,-,*}, form) of the declared finite domain is executed on the real "
      "code in a debug-assertion and a release build and compared with (val(a) op val(b)) mod 2^n; domain = all values for all lengths up to the FULL "
      "bound for the u8/u16-word types, Bvd and Bv (with spare-capacity / heap-mode provenances), the complete boundary lattice for every word type, "
      "all six native types (u8 complete); results whose representation differs from a fresh vector go through the differential observer battery.",
      TRUST, "DESIGN.md 4/C01")
