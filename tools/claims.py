# executed by gen_manifest.py: one claim(...) per property whose check exists and runs clean
claim("C01", "arith",
      "explicit-state exhaustive enumeration (step mode) of real operator code vs bit-list reference model",
      "Every (lhs kind, rhs kind/native type, length pair, value pair, op in {+,-,*}, form) of the declared finite domain is executed on the real "
      "code in a debug-assertion and a release build and compared with (val(a) op val(b)) mod 2^n; domain = all values for all lengths up to the FULL "
      "bound for the u8/u16-word types, Bvd and Bv (with spare-capacity / heap-mode provenances), the complete boundary lattice for every word type, "
      "all six native types (u8 complete); results whose representation differs from a fresh vector go through the differential observer battery.",
      TRUST, "DESIGN.md 4/C01")
claim("C02", "arith",
      "explicit-state exhaustive enumeration (step mode) of real division code vs bit-list reference model",
      "Every (dividend kind, divisor kind/native type, length pair, value pair) of the declared finite domain through / % /= %= and div_rem, in both build profiles: "
      "zero-valued divisors of every length (incl. empty) must panic, all others must return floor(a/b), a mod b with the dividend's length; divisors longer than the dividend "
      "and than its fixed capacity are in the domain by construction.", TRUST, "DESIGN.md 4/C02")
claim("C03", "hist",
      "explicit-state BFS over real representations: closure (fixpoint) of the reachable state space, depth-bounded BFS elsewhere",
      "For Bvf<u8,1> and Bvf<u8,2> every reachable concrete representation is visited and every action of the full public alphabet is applied to it and compared with the "
      "list model, so 'representation = fresh representation of the model bits' is shown inductive: histories of any length, bounded only by the operand alphabet. "
      "Bvf<u8,3> (len<=20, thorough), every other word type, Bvd and Bv (inline and heap, with and without spare capacity) are explored breadth-first to depth 2 (quick) / 3 (thorough) "
      "from boundary roots; every state whose representation differs from a fresh vector goes through the differential observer battery.", TRUST, "DESIGN.md 4/C03")
claim("C04", "arith",
      "explicit-state exhaustive enumeration (step mode) of real bitwise operators vs bit-list reference model",
      "Every (lhs kind, rhs kind/native, lengths, values) of the declared domain through & | ^ (value and assign forms) and !a / !&a; right operands longer than the left with set bits "
      "beyond its length are in the domain by construction; results are compared bit by bit and, when not representation-identical to a fresh vector, through the observer battery.", TRUST, "DESIGN.md 4/C04")
claim("C05", "arith",
      "explicit-state exhaustive enumeration (step mode) of real shift code vs bit-list reference model",
      "All values up to the FULL bound (and the lattice for wide kinds) x shift amounts 0..=n+2, every word boundary +-1, every narrowing boundary up to u128::MAX in every amount type, "
      "every u8 amount and every u16 amount for the u8-word kinds, both directions, all six operator forms, plus shl_in/shr_in with both bits including n=0.", TRUST, "DESIGN.md 4/C05")
claim("C06", "arith",
      "explicit-state exhaustive enumeration (step mode, plus the inverse rotation as a second step) vs index-permutation model",
      "rotl/rotr by every k in 0..=n on all values up to the FULL bound (all 2^n values of Bvf<u8,2>/Bvf<u8,3> in thorough) and the lattice of every kind; each result is then rotated back "
      "(second step) and must restore the original.", TRUST, "DESIGN.md 4/C06")
claim("C07", "hist",
      "explicit-state BFS: closure of Bvf<u8,1>/Bvf<u8,2> under the edit alphabet, depth-bounded BFS for wide kinds, Bvd, Bv",
      "push pop set resize truncate sign_extend append prepend insert extend collect with operands of every implementation (incl. empty) against list edits; closure for the u8-word "
      "types, depth 2/3 from boundary roots crossing word and inline/heap boundaries elsewhere, plus scripted growth to >2000 bits for Bvd and Bv.", TRUST, "DESIGN.md 4/C07")
claim("C08", "conv",
      "exhaustive step-mode enumeration of slices/splits of real vectors vs list model",
      "copy_range for all (s,e), split_off/split for all i (all indices up to 12 bits, boundary index set beyond), first/last, rejoin by append, on the standard domain of all 17 kinds "
      "(Bv sources in both storage modes); returned vectors go through representation identity / battery; source re-read after the call.", TRUST, "DESIGN.md 4/C08")
claim("C09", "conv",
      "exhaustive enumeration of ordered pairs over all 17x17 kind pairings vs numeric comparison of model values",
      "== != < <= > >= partial_cmp (and Ord::cmp for equal types) for all values up to the FULL bound in every ordered kind pairing, lattice pairs up to 257 bits, operands with spare "
      "capacity / heap mode; plus triples for transitivity/totality on the real answers.", TRUST, "DESIGN.md 4/C09")
claim("C10", "conv",
      "exhaustive enumeration of numerically equal same-type pairs (all lengths/capacities/storage modes) with a call-recording Hasher",
      "For every value in the domain, every pair of representations of it (lengths sig..sig+W+1 and lattice lengths; every capacity provenance of Bvd; inline/heap x spare for Bv) that the "
      "implementation reports equal must feed an identical call sequence to a recording Hasher, hash equally under DefaultHasher and be found in a HashSet.", TRUST, "DESIGN.md 4/C10")
claim("C11", "conv",
      "exhaustive enumeration of integer<->vector conversions vs value model",
      "u8 (and u16 in thorough) complete, lattice for wider types, into all 17 kinds by value and by reference; slices of 0..5 elements; every vector of the standard domain to all six "
      "integer types by value and by reference (empty vectors included; must not panic); Bit<->bool/integers.", TRUST, "DESIGN.md 4/C11")
claim("C12", "conv",
      "exhaustive enumeration of every implemented From/TryFrom between the 17 kinds vs identity model",
      "All ordered kind pairs for which an impl exists, by reference and by value, sources from the standard domain plus lengths at C_target-1/C_target/C_target+1, with spare capacity and in "
      "both Bv modes: Ok with identical length/bits iff it fits, NotEnoughCapacity otherwise; new(into_inner()) reproduces the representation.", TRUST, "DESIGN.md 4/C12")
claim("C13", "conv",
      "exhaustive enumeration of byte strings/lengths plus deviation-bounded exploration of the I/O environment's answers",
      "to_vec/write for all lengths (not only multiples of 8), from_bytes for all strings of <=2 bytes and pattern strings to 33 bytes, read for every len per string with trailing sentinel "
      "bytes under every reader/writer answer script with at most 1 (quick) / 2 (thorough) deviations (short transfer, Interrupted, hard error, EOF), short input, insufficient capacity; round trips.", TRUST + " std's documented read_exact/write_all semantics are part of the model.", "DESIGN.md 4/C13")
claim("C14", "conv",
      "exhaustive enumeration of (vector, format spec) vs Rust's own formatting of u128 / digit-level model",
      "38 format specifications (all five radices x #, +, 0, width, fill, alignment combinations) on the standard domain of all kinds: identical string to format!(spec, value as u128) up to "
      "128 bits and to the bit-list digit model padded by Formatter::pad_integral beyond.", TRUST, "DESIGN.md 4/C14")
claim("C15", "conv",
      "exhaustive enumeration of short strings over small alphabets plus capacity-boundary strings vs parsing model",
      "All binary strings up to the bound, all strings over {0,1,2,x,e-acute} up to 5 chars, all hex strings up to 3 chars, strings with blanks / non-ASCII / full-width digits, pattern strings "
      "at every capacity and inline-limit boundary, for all 17 kinds; parse of {:b}/{:x}/{:X} output of the standard domain.", TRUST, "DESIGN.md 4/C15")
claim("C16", "conv",
      "exhaustive enumeration of vectors vs run-length model",
      "leading/trailing zeros/ones, significant_bits, is_zero and the two identities on all 2^n values up to 16 (Bvf<u8,2>) / 20 (Bvf<u8,3>, thorough) bits and the 3-run lattice of every kind "
      "and lattice length, subjects with spare capacity and in both Bv modes.", TRUST, "DESIGN.md 4/C16")
claim("C17", "iter",
      "closure of the real iterator's (start,end) state space under the whole call alphabet vs std::slice::Iter",
      "For each subject vector every reachable iterator state (real (start,end) through the verif-hooks accessor paired with the model iterator's remaining slice) is reached by replaying its "
      "call history on a fresh iter(); from every state next, next_back, nth(k), nth_back(k) with k up to usize::MAX, size_hint, count, last, rev().collect(), collect() are compared.", TRUST, "DESIGN.md 4/C17")
claim("C18", "hist",
      "depth-bounded explicit-state BFS over Bvd and Bv under the capacity alphabet with state invariants",
      "with_capacity roots, reserve, shrink_to_fit, edits crossing the 64-bit and inline/heap boundaries and op= with longer operands, depth 2/3: len<=capacity in every state, "
      "reserve/shrink postconditions, bits unchanged (model), no panic, both Bv mode switches observed.", TRUST, "DESIGN.md 4/C18")
claim("C19", "hist",
      "exhaustive step-mode enumeration of growth operations at the capacity boundary in both build profiles",
      "Every fixed kind x lengths 0,C-W,C-2,C-1,C x every constructor and growing mutator with amounts landing at C-1,C,C+1,C+W,C+W+1: fits => list model, does not fit => panic / documented "
      "Err in both profiles, never len>capacity; out-of-range get/set/copy_range/split_off must panic in the debug-assertion build.", TRUST, "DESIGN.md 4/C19")
claim("C20", "arith",
      "exhaustive differential enumeration of all operator forms on real code",
      "For every operand pair of the domain and each of + - * / % & | ^ (6 forms) and << >> (6 forms): all forms yield the identical length and bits or all panic; a native integer operand "
      "gives the same result as a vector built from it in four implementations; by-reference operands and earlier clones are re-read and must be bit-identical.", "Differential (no model needed); " + TRUST, "DESIGN.md 4/C20")
