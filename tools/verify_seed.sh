#!/bin/sh
# usage: tools/verify_seed.sh <name> <dir-with patch.diff+demo.rs> [--release]
# Confirms in a fresh scratch worktree: demo passes on HEAD, fails with the patch; repo suite passes with the patch.
set -u
N="$1"; D="$2"; REL="${3:-}"
W=/tmp/vs/$N
rm -rf "$W"; git -C /repo worktree prune
git -C /repo worktree add -q --detach "$W" HEAD || exit 2
cp /repo/Cargo.lock "$W"/; mkdir -p "$W/tests"; cp "$D/demo.rs" "$W/tests/demo.rs"
cd "$W"
cargo test --offline $REL --test demo > "$W.base.log" 2>&1; B=$?
git apply "$D/patch.diff" || { echo "$N: patch does not apply"; exit 2; }
cargo test --offline $REL --test demo > "$W.mut.log" 2>&1; M=$?
rm tests/demo.rs
cargo test --offline > "$W.suite.log" 2>&1; S=$?
U=$(grep -c "^test result: ok. 235 passed" "$W.suite.log"); DT=$(grep -c "^test result: ok. 49 passed" "$W.suite.log")
echo "$N: demo_on_HEAD_exit=$B (want 0) demo_with_patch_exit=$M (want !=0) suite_exit=$S unit235=$U doc49=$DT"
cd /; git -C /repo worktree remove --force "$W"
