#!/usr/bin/env python3
"""Regenerate /verif/MANIFEST.json from the table below (kept in one place so that the manifest
is always valid and consistent with what ./check implements)."""
import json
import os
import subprocess

ROOT = os.path.dirname(os.path.dirname(os.path.abspath(__file__)))

# property -> (engine, technique, level text, level note, design ref)
CLAIMED = {}
NOT_YET = {}


def claim(pid, engine, technique, text, note, ref):
    CLAIMED[pid] = dict(engine=engine, technique=technique, text=text, note=note, ref=ref)


TRUST = ("Trusted: the Rust reference model in mc/core (bit lists; u128/BigUint fast paths tied to it by the start-up self-test), "
         "rustc/std, the thin macro dispatch to bva's public API. Values beyond the FULL bound are the finite boundary lattice; "
         "x86-64 only; two build profiles.")

exec(open(os.path.join(ROOT, "tools", "claims.py")).read())

hook_commits = subprocess.run(["git", "-C", "/repo", "log", "--format=%H", "--grep", "verif-hooks"], capture_output=True, text=True).stdout.split()

manifest = {
    "version": 1,
    "setup_cmd": "./setup.sh",
    "hooks": {
        "guard": "cargo feature `verif-hooks` of crate bva (off by default)",
        "enable": "mc/core/Cargo.toml and mc/eng/Cargo.toml depend on bva = { path = \"/repo\", features = [\"verif-hooks\"] }; every ./check invocation rebuilds from /repo's working tree",
        "baseline_off_cmd": "cd /repo && cargo test --workspace --no-fail-fast --offline",
        "source_commits": hook_commits,
        "add_only": True,
    },
    "engines": [
        {"name": "arith", "path": "mc/eng/src/arith.rs", "serves_properties": ["C01", "C02", "C04", "C05", "C06", "C20"],
         "kind_free_text": "explicit-state step-mode exploration of the real operators against a bit-list reference model over completely enumerated operand domains"},
        {"name": "hist", "path": "mc/eng/src/hist.rs", "serves_properties": ["C03", "C07", "C18", "C19"],
         "kind_free_text": "explicit-state BFS over real representations: closure of the reachable state space for u8-word fixed vectors, depth-bounded elsewhere"},
        {"name": "conv", "path": "mc/eng/src/convs.rs", "serves_properties": ["C08", "C09", "C10", "C11", "C12", "C13", "C14", "C15", "C16"],
         "kind_free_text": "step-mode exhaustive sweeps of observers/conversions against the reference model, incl. deviation-bounded I/O environment scripts"},
        {"name": "iter", "path": "mc/eng/src/iters.rs", "serves_properties": ["C17"],
         "kind_free_text": "closure of the iterator's concrete (start,end) state space under the full call alphabet against std::slice::Iter"},
    ],
    "checks": [],
    "not_applicable": [],
    "notes": "All checks: ./check <id> quick|thorough (Python driver; builds mc/ in two cargo profiles dbg and rel, runs both, merges evidence). "
             "Exit 0 held / 1 VIOLATION / 2 machinery failure. Known findings: known_findings.json.",
}
for pid in ["C%02d" % i for i in range(1, 21)]:
    if pid in CLAIMED:
        c = CLAIMED[pid]
        manifest["checks"].append({
            "property_id": pid,
            "quick_cmd": "./check %s quick" % pid,
            "thorough_cmd": "./check %s thorough" % pid,
            "evidence_file": "/verif/evidence/%s.json" % pid,
            "replay_cmd_template": "./check replay {path}",
            "engine": c["engine"],
            "level_claimed": {"category": "model_checking", "text": c["text"], "design_ref": c["ref"]},
            "level_note": c["note"],
            "technique": c["technique"],
        })
    else:
        manifest["not_applicable"].append({"property_id": pid, "reason": NOT_YET.get(pid, "check under construction in this session; not claimed until it runs clean")})

with open(os.path.join(ROOT, "MANIFEST.json"), "w") as f:
    json.dump(manifest, f, indent=1)
print("claimed:", sorted(CLAIMED), "not claimed:", [e["property_id"] for e in manifest["not_applicable"]])
