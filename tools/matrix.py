#!/usr/bin/env python3
"""Run every quick check against every seeded change, in a private copy of /verif and a private
worktree of /repo (so that /verif and /repo stay usable meanwhile).
usage: tools/matrix.py <out.json> [seed-dir ...]"""
import json, os, subprocess, sys, shutil, glob
OUT = sys.argv[1]
seeds = sys.argv[2:] or sorted(glob.glob('/verif/seeded/S*'))
MX = '/tmp/mx'
V, R = MX + '/verif', MX + '/repo'
PROPS = ["C%02d" % i for i in range(1, 21)]
shutil.rmtree(MX, ignore_errors=True)
os.makedirs(MX)
subprocess.run(['git', '-C', '/repo', 'worktree', 'prune'])
subprocess.run(['git', '-C', '/repo', 'worktree', 'add', '-q', '--detach', R, 'HEAD'], check=True)
shutil.copy('/repo/Cargo.lock', R)
subprocess.run(['git', 'clone', '-q', '/verif', V], check=True)
for f in [V + '/mc/core/Cargo.toml', V + '/mc/eng/Cargo.toml']:
    s = open(f).read().replace('path = "/repo"', 'path = "%s"' % R)
    open(f, 'w').write(s)
res = {}
if os.path.exists(OUT):
    res = json.load(open(OUT))
for sd in seeds:
    name = os.path.basename(sd.rstrip('/'))
    if name in res and len(res[name]) == len(PROPS):
        continue
    subprocess.run(['git', '-C', R, 'checkout', '-q', '--', '.'], check=True)
    r = subprocess.run(['git', '-C', R, 'apply', os.path.abspath(sd) + '/patch.diff'])
    if r.returncode != 0:
        res[name] = {'error': 'patch does not apply'}
        continue
    row = {}
    for p in PROPS:
        r = subprocess.run(['./check', p, 'quick'], cwd=V, capture_output=True, text=True)
        nv = sum(1 for l in r.stdout.splitlines() if l.startswith('VIOLATION'))
        row[p] = {'exit': r.returncode, 'violation_lines': nv}
        print(name, p, r.returncode, nv, flush=True)
    res[name] = row
    json.dump(res, open(OUT, 'w'), indent=1)
subprocess.run(['git', '-C', R, 'checkout', '-q', '--', '.'])
subprocess.run(['git', '-C', '/repo', 'worktree', 'remove', '--force', R])
shutil.rmtree(MX, ignore_errors=True)
