#!/bin/sh
# usage: tools/try_patch.sh <patch.diff> <tier> <Cxx>...   - apply a seeded change to /repo, run the checks, undo it
set -u
P="$1"; T="$2"; shift 2
cd /verif
git -C /repo diff --quiet || { echo "/repo has uncommitted changes"; exit 2; }
git -C /repo apply "$P" || { echo "patch does not apply"; exit 2; }
for c in "$@"; do
  ./check "$c" "$T" > /tmp/try_$c.out 2>/tmp/try_$c.err
  echo "$c exit=$? viol=$(grep -c '^VIOLATION' /tmp/try_$c.out) | $(tail -1 /tmp/try_$c.out)"
done
git -C /repo checkout -- .
